"""C07 -- VRH averages, bounds and velocities are those of the full tensor in SI units."""
import importlib, itertools, os, re, types
import numpy
import z3
from vf import core, smt, symnp
from vf.symnp import SymArr, Sc, Dim, SymNumpy
from contracts.nonshear_env import patched, duck_of

LEVEL = "proof"
EXPLANATION = ("real CijVolumeBaseInterface properties and Calculator._calculate_compliances run on symbolic (T,V) fields of symbolic "
               "size; averages compared with the fourth-rank tensor definitions built through voigt.py's own index maps; attribute "
               "lookup enumerated over every name REGEX_CIJ matches; Reuss<=Hill<=Voigt by a Lean/Mathlib lemma whose statements are proved to be the code's formulas; S=C^-1 additionally bounded on real numpy")
CAL = "calculator."
VB = CAL + "CijVolumeBaseInterface."
RY_KGKM2 = z3.Real("RY_TO_KG_KM2_S2")
NA_CONST = z3.Real("N_AVOGADRO")


def all_keys():
    from cij.util import c_
    return [c_(i, j) for i in range(1, 7) for j in range(i, 7)]


class UnitsStub:
    """the one pint conversion the velocity properties perform: rydberg -> kg km^2 / s^2 (a named constant whose value
    is compared with exact-SI/CODATA values in C07.constants)"""

    class _U:
        def __init__(self, e): self.e = e
        def __mul__(self, o): return UnitsStub._U({k: self.e.get(k, 0) + o.e.get(k, 0) for k in set(self.e) | set(o.e)})
        def __truediv__(self, o): return UnitsStub._U({k: self.e.get(k, 0) - o.e.get(k, 0) for k in set(self.e) | set(o.e)})
        def __pow__(self, n): return UnitsStub._U({k: v * n for k, v in self.e.items()})
        def key(self): return tuple(sorted((k, v) for k, v in self.e.items() if v))

    PINT_NAMES = {"kilogram": "kg", "kilometer": "km", "second": "s", "rydberg": "rydberg", "Ry": "rydberg"}

    @staticmethod
    def of(u):
        """a stub unit, or a real pint unit (e.g. a module-level constant built at import time, before the stub was installed)
        translated by its base-unit exponents"""
        if isinstance(u, UnitsStub._U):
            return u
        items = getattr(u, "_units", None)
        if items is None:
            raise core.OutsideSubset("unit object %r" % (u,))
        e = {}
        for k, v in dict(items).items():
            if k not in UnitsStub.PINT_NAMES or int(v) != v:
                raise core.OutsideSubset("pint unit %r is not part of the contract" % (u,))
            e[UnitsStub.PINT_NAMES[k]] = int(v)
        return UnitsStub._U(e)

    def __init__(self):
        for n in ("rydberg", "kg", "km", "s"):
            setattr(self, n, UnitsStub._U({n: 1}))

    def Quantity(self, value, unit):
        stub = self

        class Q:
            def to(self, u2):
                u1, u2 = UnitsStub.of(unit), UnitsStub.of(u2)
                if u1.key() == (("rydberg", 1),) and u2.key() == (("kg", 1), ("km", 2), ("s", -2)):
                    return types.SimpleNamespace(magnitude=value * Sc(RY_KGKM2))
                raise core.OutsideSubset("unit conversion %s -> %s is not part of the contract" % (u1.key(), u2.key()))
        return Q()


def run(s):
    cal = importlib.import_module("cij.core.calculator")
    from cij.util import c_
    tier = s.tier
    keys = all_keys()
    s.trust("z3 5.1 (QF_LRA/NRA)", "vf/symnp.py", "numpy.linalg.inv = matrix inverse (A-NUMPY)")
    s.assume("A-FP", "A-NUMPY: numpy.linalg.inv returns the batched matrix inverse", "A-PINT/A-CONST: Ry -> kg km^2/s^2 and N_A are constants, "
             "compared with exact-SI/CODATA values", "L-HILL (proved, Lean 4 + Mathlib, lemmas/Hill.lean): for a real positive-definite 6x6 C and S = C^-1 the Reuss formulas are <= the "
             "Voigt formulas (Cauchy-Schwarz for the C-inner product) and the mean lies between; the theorem statements are parsed and proved "
             "equal to the formulas the code was proved to compute (C07.hill_lemma_is_about_the_code)")
    nt, ntv = Dim("nt"), Dim("ntv")
    C = {k: SymArr.atom("C%d%d" % k.voigt, (nt, ntv)) for k in keys}
    CT = {k: SymArr.atom("CT%d%d" % k.voigt, (nt, ntv)) for k in keys}
    Scomp = {k: SymArr.atom("S%d%d" % k.voigt, (nt, ntv)) for k in keys}
    Vv = SymArr.atom("V", (ntv,), lambda i, v: v > 0)
    Tt = SymArr.atom("T", (nt,))
    cellmass = z3.Real("cellmass")

    def duck(ckeys=keys, skeys=keys):
        qha = types.SimpleNamespace(volume_base=types.SimpleNamespace(v_array=Vv, t_array=Tt))
        return types.SimpleNamespace(modulus_keys=list(ckeys), modulus_adiabatic={k: C[k] for k in ckeys},
                                     modulus_isothermal={k: CT[k] for k in ckeys}, _compliances={k: Scomp[k] for k in skeys},
                                     elast_data=types.SimpleNamespace(cellmass=Sc(cellmass)), qha_calculator=qha)

    # ---------------- 1. attribute lookup over the complete set of names REGEX_CIJ matches [F]
    def lookup():
        rx = re.compile(cal.REGEX_CIJ)
        sub = [k for k in keys if k.voigt not in ((1, 4), (2, 5), (5, 6))]
        vb = cal.CijVolumeBaseInterface(duck(sub, sub))
        names = []
        for pre in "cs":
            for us in ("", "_"):
                for idx in ["%d%d" % p for p in itertools.product(range(1, 7), repeat=2)] + ["%d%d%d%d" % p for p in itertools.product((1, 2, 3), repeat=4)]:
                    for suf in ("", "s", "t"):
                        names.append((pre, us, idx, suf))
        n = 0
        for pre, us, idx, suf in names:
            name = pre + us + idx + suf
            if not rx.match(name):
                return core.unknown("finite", "REGEX_CIJ no longer matches %r: the enumeration would be incomplete" % name)
            key = c_(idx)
            n += 1
            try:
                got = ("return", getattr(vb, name))
            except AttributeError:
                got = ("raise",)
            if pre == "c":
                want = ("raise",) if key not in sub else ("return", (CT if suf == "t" else C)[key])
            else:
                if suf == "t":
                    continue        # isothermal compliances are not part of the property
                want = ("raise",) if key not in sub else ("return", Scomp[key])
            if got[0] != want[0] or (got[0] == "return" and got[1] is not want[1]):
                return core.refuted("finite", "attribute %r returns %s" % (name, "the wrong array" if got[0] == "return" else "AttributeError"),
                                    witness_id="lookup:" + name, replay={"reproduced": True, "name": name})
        for bad in ("c77", "c07", "c1", "c123", "c1114", "cc11", "c11x", "s70", "k11"):
            try:
                getattr(vb, bad)
                return core.refuted("finite", "attribute %r is accepted" % bad, witness_id="lookup:" + bad, replay={"reproduced": True})
            except AttributeError:
                pass
        return core.proved("finite", "%d names (c|s, optional _, 36 two-digit and 81 four-digit index strings, suffix none/s/t): canonical key, "
                                     "adiabatic for none/s, isothermal for t, AttributeError when absent" % n)
    s.oblige("C07.attribute_lookup", lookup, [VB + "__getattr__", CAL + "REGEX_CIJ"], kind="finite")

    # ---------------- 2. assembly + inversion
    rec = {}

    def inv_stub(M):
        rec["inv_arg"] = M
        fs = {}

        def elem(idx):
            i, j = z3.simplify(idx[2]), z3.simplify(idx[3])
            if not (z3.is_int_value(i) and z3.is_int_value(j)):
                raise core.OutsideSubset("symbolic matrix index into the inverse")
            key = (i.as_long(), j.as_long())
            if key not in fs:
                fs[key] = z3.Function("INV_%d%d" % key, z3.IntSort(), z3.IntSort(), z3.RealSort())
            return fs[key](idx[0], idx[1])
        rec["inv"] = SymArr(M.shape, elem)
        return rec["inv"]

    def allclose_stub(a, b, **kw):
        rec.setdefault("allclose", []).append((a, b, kw))
        return False

    def run_compliances(ckeys):
        rec.clear()
        me = duck_of(cal.Calculator, dims=(nt, ntv), modulus_keys=list(ckeys), modulus_adiabatic={k: C[k] for k in ckeys})
        with patched(cal, numpy=SymNumpy(extra={"allclose": allclose_stub}, linalg={"inv": inv_stub})):
            cal.Calculator._calculate_compliances(me)
        return me

    def assembly(ckeys, label):
        def ob():
            me = run_compliances(ckeys)
            if "inv_arg" not in rec:
                return core.refuted("callsite", "numpy.linalg.inv is not called on the assembled matrix", witness_id="no-inv")
            M = rec["inv_arg"]
            present = {k.voigt: k for k in ckeys}

            def spec(idx):
                I, J = z3.simplify(idx[2]).as_long() + 1, z3.simplify(idx[3]).as_long() + 1
                k = present.get((min(I, J), max(I, J)))
                return C[k].elem(idx[:2]) if k is not None else z3.RealVal(0)
            if not symnp.same_shape(M.shape, (nt, ntv, 6, 6)):
                return core.refuted("symnp", "matrix handed to inv has shape %s" % (M.shape,), witness_id="inv-shape")
            t, v = z3.Ints("t v")
            for I in range(6):
                for J in range(6):
                    idx = (t, v, z3.IntVal(I), z3.IntVal(J))
                    r = smt.prove(M.elem(idx) == spec(idx), [t >= 0, t < nt.n, v >= 0, v < ntv.n], tier=tier)
                    if r.status != core.PROVED:
                        r.detail = "entry (%d,%d) of the matrix handed to inv is %s, specified %s | %s" % (I + 1, J + 1, M.elem(idx), spec(idx), r.detail)
                        r.witness_id = "assembly(%d,%d)" % (I + 1, J + 1)
                        r.replay = native_compliances(cal)
                        return r
            # stored compliances: exactly INV[:, :, I, J] for I <= J, under the canonical key
            inv = rec["inv"]
            want_keys = set(keys)
            if set(me._compliances) != want_keys:
                r = core.refuted("symnp", "compliance keys stored: %d, expected 21 (none is all-zero in this run)" % len(me._compliances), witness_id="compl-keys")
                r.replay = native_compliances(cal)
                return r
            for k in keys:
                I, J = k.voigt
                got = me._compliances[k]
                idx = (t, v)
                r = smt.prove(got.elem(idx) == inv.elem((t, v, z3.IntVal(I - 1), z3.IntVal(J - 1))), [t >= 0, v >= 0], tier=tier)
                if r.status != core.PROVED:
                    r.detail = "compliance stored under %r is not INV[.,.,%d,%d] | %s" % (k, I, J, r.detail)
                    r.witness_id = "compl%r" % (k,)
                    r.replay = native_compliances(cal)
                    return r
            # the all-zero test must look at the compliance entry it is about to store
            calls = rec.get("allclose", [])
            seen = set()
            for a_, b_, kw in calls:
                if not symnp.is_arr(a_) or not symnp.same_shape(a_.shape, (nt, ntv)):
                    return core.refuted("callsite", "allclose called on %r" % (a_,), witness_id="allclose-arg")
                hit = None
                for I in range(6):
                    for J in range(6):
                        if a_.elem((t, v)).eq(inv.elem((t, v, z3.IntVal(I), z3.IntVal(J)))):
                            hit = (I, J)
                if hit is None:
                    r = core.refuted("callsite", "the vanishing-entry test is applied to %s, not to an entry of the inverse" % a_.elem((t, v)),
                                     witness_id="allclose-not-inverse")
                    r.replay = native_compliances(cal)
                    return r
                seen.add(hit)
            if not {(I, J) for I in range(6) for J in range(I, 6)} <= seen:
                return core.refuted("callsite", "vanishing-entry test not applied to every I<=J entry of the inverse", witness_id="allclose-coverage")
            return core.proved("z3", "matrix = symmetric 6x6 assembly of the supplied components (0 elsewhere), inv called on it, 21 entries stored")
        return s.oblige("C07.compliances.assembly[%s]" % label, ob, [CAL + "Calculator._calculate_compliances"], fallback=lambda: native_fields(cal))
    assembly(keys, "all 21 components")
    assembly([k for k in keys if k.voigt[0] <= 3 and k.voigt[1] <= 3 or k.voigt[0] == k.voigt[1]], "nine orthotropic components")

    # ---------------- 3. averages against the tensor definitions
    def tensor(arrs, scale=False):
        def f(I):
            return 1 if I <= 3 else 2
        out = {}
        for i, j, k, l in itertools.product((1, 2, 3), repeat=4):
            key = c_(i, j, k, l)
            a = arrs[key]
            if scale:
                a = a / (f(key.voigt[0]) * f(key.voigt[1]))
            out[(i, j, k, l)] = a
        return out

    def contract(Tn, pattern):
        tot = None
        for i in (1, 2, 3):
            for j in (1, 2, 3):
                idx = {"iijj": (i, i, j, j), "ijij": (i, j, i, j)}[pattern]
                tot = Tn[idx] if tot is None else tot + Tn[idx]
        return tot

    def defs():
        Cn, Sn = tensor(C), tensor(Scomp, scale=True)
        KV = contract(Cn, "iijj") / 9
        GV = (3 * contract(Cn, "ijij") - contract(Cn, "iijj")) / 30
        KR = 1 / contract(Sn, "iijj")
        GR = 15 / (6 * contract(Sn, "ijij") - 2 * contract(Sn, "iijj"))
        return {"bulk_modulus_voigt": KV, "shear_modulus_voigt": GV, "bulk_modulus_reuss": KR, "shear_modulus_reuss": GR,
                "bulk_modulus_voigt_reuss_hill": (KV + KR) / 2, "shear_modulus_voigt_reuss_hill": (GV + GR) / 2}
    spec = defs()
    for name in spec:
        def ob(name=name):
            with patched(cal, numpy=SymNumpy(), units=UnitsStub()):
                return symnp.prove_code_equals(lambda: getattr(cal.CijVolumeBaseInterface(duck()), name), spec[name], [], tier=tier, name=name)
        s.oblige("C07." + name, ob, [VB + name], fallback=lambda: native_fields(cal))
    s.canary("C07.canary.G_R_with_3_instead_of_4", lambda: canary_gr(cal, duck, Scomp, tier))

    # ---------------- 3b. Reuss <= Hill <= Voigt: Lean lemma over the formulas above, and the statement-to-code link
    s.oblige("C07.hill_lemma_is_about_the_code", lambda: hill_link(spec, C, Scomp, tier), ["lemmas/Hill.lean (statements)"] + [VB + n for n in spec])
    from vf import lean
    s.oblige("C07.reuss_le_hill_le_voigt(lean)", lambda: lean.check_file("lemmas/Hill.lean"),
             ["lemmas/Hill.lean: cs_posdef, reuss_le_voigt_bulk, reuss_le_voigt_shear, hill_between"])
    s.canary("C07.canary.hill_link_with_wrong_coefficient", lambda: hill_link(spec, C, Scomp, tier, perturb=True))

    # ---------------- 4. mass and velocities
    KVRH = SymArr.atom("KVRH", (nt, ntv), lambda i, v: v > 0)
    GVRH = SymArr.atom("GVRH", (nt, ntv), lambda i, v: v > 0)

    def velocity(name, modulus):
        def ob():
            cls = cal.CijVolumeBaseInterface
            with patched(cal, numpy=SymNumpy(), units=UnitsStub()):
                from contracts.nonshear_env import class_attr
                with class_attr(cls, "bulk_modulus_voigt_reuss_hill", property(lambda self: KVRH)), \
                        class_attr(cls, "shear_modulus_voigt_reuss_hill", property(lambda self: GVRH)):
                    vb = cls(duck())
                    vel = getattr(vb, name)
                    mass = vb.mass
            # rho v^2 = modulus (in kg km^2/s^2 per bohr^3), rho = mass / V, mass = cellmass 1e-3 / N_A
            t, v = z3.Ints("t v")
            vv = vel.elem((t, v))
            m = symnp.term(mass)
            facts = [t >= 0, v >= 0, cellmass > 0, RY_KGKM2 > 0, NA_CONST > 0, Vv.elem((v,)) > 0,
                     KVRH.elem((t, v)) > 0, GVRH.elem((t, v)) > 0]
            mod = modulus(t, v)
            goal = z3.And(m == cellmass / 1000 / NA_CONST, vv >= 0, (m / Vv.elem((v,))) * vv * vv == mod * RY_KGKM2)
            nz = symnp.SumNormalizer(facts, tier)
            return nz.decide(goal, nz.facts(goal), name)
        return ob
    with patched(cal, scipy=types.SimpleNamespace(constants=types.SimpleNamespace(physical_constants={"Avogadro constant": (Sc(NA_CONST), "mol^-1", 0)},
                                                                                  Avogadro=Sc(NA_CONST), N_A=Sc(NA_CONST)))):
        s.oblige("C07.secondary_velocities", velocity("secondary_velocities", lambda t, v: GVRH.elem((t, v))), [VB + "secondary_velocities", VB + "mass"], fallback=lambda: native_fields(cal))
        s.oblige("C07.primary_velocities", velocity("primary_velocities", lambda t, v: KVRH.elem((t, v)) + 4 * GVRH.elem((t, v)) / 3),
                 [VB + "primary_velocities", VB + "mass"], fallback=lambda: native_fields(cal))
    s.oblige("C07.constants", lambda: constants(cal), ["cij.util.units", "scipy.constants"], kind="finite")
    # ---------------- 5. bounded: S = C^-1, definitions and Reuss <= Hill <= Voigt on random SPD tensors (real numpy)
    bounded_spd(s, cal)
    # density = cell mass / (N_A V): the cell mass is the third number of the static table's header, in whatever legitimate spelling it is written
    def cell_mass():
        import tempfile, shutil
        ed = importlib.import_module("cij.io.traditional.elast_dat")
        tmp = tempfile.mkdtemp(prefix="c07m_")
        try:
            for tok in ("803.104", "803", "8.03104E+02", "8.03104e2", "8.03104E02", "0.803104E+03", "80310.4E-2", "+803.104"):
                for vtok in ("560.0", "5.6E+02"):
                    p = os.path.join(tmp, "elast.dat")
                    with open(p, "w") as fp:
                        fp.write("title\n%s 2 %s\nV c11 c12 c44\n560.0 300.0 100.0 80.0\n520.0 330.0 120.0 90.0\n" % (vtok, tok))
                    d = ed.read_elast_data(p)
                    if d.cellmass != float(tok) or d.vref != float(vtok) or d.nv != 2:
                        return core.refuted("finite", "header `%s 2 %s`: cell mass read as %r, reference volume %r" % (vtok, tok, d.cellmass, d.vref), witness_id="cellmass:" + tok,
                                            replay={"reproduced": True, "header": "%s 2 %s" % (vtok, tok)})
        finally:
            shutil.rmtree(tmp, ignore_errors=True)
        return core.proved("finite", "16 spellings of the header numbers (plain, integer, exponent notation, explicit sign): the cell mass and reference volume are float(token)")
    s.oblige("C07.cell_mass_as_tabulated", cell_mass, ["elast_dat.read_elast_data"], kind="finite")

    # the quantities of this property are DELIVERED through the writer rules (keyword -> quantity, file name, unit; a data file): C15's registry and writer-path obligations
    # are registered here as well
    from props import C15
    core.SubSession(s, lambda n: n.replace("C15.", "C07.delivery."), lambda n: n in ("C15.registry", "C15.writer_paths")).run(C15)
    s.min_obligations = 14


def hill_statements():
    """the two inequalities of lemmas/Hill.lean as text: {theorem name: (lhs, rhs)}"""
    import os
    src = open(os.path.join(core.HERE, "lemmas", "Hill.lean")).read()
    out = {}
    for name in ("reuss_le_voigt_bulk", "reuss_le_voigt_shear"):
        m = re.search(r"theorem %s \(C : Matrix \(Fin 6\) \(Fin 6\) ℝ\) \(hC : C\.PosDef\) :\s*(.*?)\s*≤\s*(.*?)\s*:= by" % name, src, re.S)
        if not m:
            raise core.OutsideSubset("lemmas/Hill.lean: theorem %s not found in the expected form" % name)
        out[name] = (m.group(1), m.group(2))
    m = re.search(r"theorem hill_between \(r v : ℝ\) \(h : r ≤ v\) : r ≤ \(v \+ r\) / 2 ∧ \(v \+ r\) / 2 ≤ v := by", src)
    if not m:
        raise core.OutsideSubset("lemmas/Hill.lean: hill_between not in the expected form")
    return out


def hill_link(spec, C, Scomp, tier, perturb=False):
    """each side of the Lean inequalities, read from the .lean text with `C i j` / `C⁻¹ i j` (0-based) mapped to the code's
    stiffness / compliance atoms, is the formula the code was proved to compute; Hill is the mean (v + r) / 2."""
    from cij.util import c_
    t, v = z3.Ints("t v")

    def ev(text):
        py = re.sub(r"C⁻¹ (\d) (\d)", r"S_\1_\2", text)
        py = re.sub(r"C (\d) (\d)", r"C_\1_\2", py)
        if re.search(r"[^0-9CS_()+\-*/ \n]", py):
            raise core.OutsideSubset("unexpected token in Lean statement: %r" % py)
        py = re.sub(r"(?<![\w.])(\d+)(?![\w.])", r"z3.RealVal(\1)", py)
        ns = {"z3": z3}
        for i in range(6):
            for j in range(6):
                ns["C_%d_%d" % (i, j)] = C[c_(i + 1, j + 1)].elem((t, v))
                ns["S_%d_%d" % (i, j)] = Scomp[c_(i + 1, j + 1)].elem((t, v))
        return eval(py, ns)
    st = hill_statements()
    pairs = [("reuss_le_voigt_bulk", 0, "bulk_modulus_reuss"), ("reuss_le_voigt_bulk", 1, "bulk_modulus_voigt"),
             ("reuss_le_voigt_shear", 0, "shear_modulus_reuss"), ("reuss_le_voigt_shear", 1, "shear_modulus_voigt")]
    goals = []
    for th, side, name in pairs:
        e = ev(st[th][side])
        if perturb and name == "shear_modulus_voigt":
            e = e * 2
        goals.append(e == spec[name].elem((t, v)))
    KR, KV = spec["bulk_modulus_reuss"].elem((t, v)), spec["bulk_modulus_voigt"].elem((t, v))
    GR, GV = spec["shear_modulus_reuss"].elem((t, v)), spec["shear_modulus_voigt"].elem((t, v))
    goals.append(spec["bulk_modulus_voigt_reuss_hill"].elem((t, v)) == (KV + KR) / 2)
    goals.append(spec["shear_modulus_voigt_reuss_hill"].elem((t, v)) == (GV + GR) / 2)
    return smt.prove(z3.And(*goals), [], tier=tier)


def canary_gr(cal, duck, Scomp, tier):
    from cij.util import c_
    g = lambda a, b: Scomp[c_(a, b)]
    wrong = 15 / (3 * (g(1, 1) + g(2, 2) + g(3, 3)) - 4 * (g(1, 2) + g(2, 3) + g(1, 3)) + 3 * (g(4, 4) + g(5, 5) + g(6, 6)))
    with patched(cal, numpy=SymNumpy(), units=UnitsStub()):
        return symnp.prove_code_equals(lambda: cal.CijVolumeBaseInterface(duck()).shear_modulus_reuss, wrong, [], tier=tier)


def constants(cal):
    from oracles import phonon as oracle
    from cij.util import units
    import scipy.constants
    got = units.Quantity(1.0, units.rydberg).to(units.kg * units.km ** 2 / units.s ** 2).magnitude
    want = float(oracle.RY_J) * 1e-6
    na = scipy.constants.physical_constants["Avogadro constant"][0]
    bad = []
    if abs(got - want) > 1e-9 * want:
        bad.append("Ry -> kg km^2/s^2: pint %r, independent %r" % (got, want))
    if abs(na - 6.02214076e23) > 1e-9 * na:
        bad.append("N_A %r" % na)
    if bad:
        return core.refuted("finite", "; ".join(bad), witness_id="constants", replay={"reproduced": True})
    return core.proved("finite", "Ry = %.10g kg km^2/s^2, N_A = %.9g" % (got, na))


def random_spd(rnd, cond):
    """random symmetric positive definite 6x6 stiffness with prescribed condition number"""
    q, _ = numpy.linalg.qr(rnd.normal(size=(6, 6)))
    # physical scale: largest eigenvalue of order 0.05 Ry/bohr^3 (~700 GPa), the others down to 1/cond of it
    ev = numpy.exp(-numpy.linspace(0, numpy.log(cond), 6)) * 0.05 * rnd.uniform(0.5, 2.0)
    return (q * ev) @ q.T


def native_vb(cal, Cm, V, cellmass, ckeys=None):
    """real Calculator._calculate_compliances + CijVolumeBaseInterface on a concrete stiffness field Cm[t,v,6,6]"""
    from cij.util import c_
    keys = ckeys or all_keys()
    nt, ntv = Cm.shape[:2]
    qha = types.SimpleNamespace(volume_base=types.SimpleNamespace(v_array=V, t_array=numpy.arange(nt) * 100.0),
                                t_array=numpy.arange(nt) * 100.0, v_array=V)
    me = duck_of(cal.Calculator, dims=(nt, ntv), modulus_keys=list(keys), modulus_adiabatic={k: Cm[:, :, k.voigt[0] - 1, k.voigt[1] - 1] for k in keys},
                               modulus_isothermal={}, elast_data=types.SimpleNamespace(cellmass=cellmass), qha_calculator=qha)
    cal.Calculator._calculate_compliances(me)
    return me, cal.CijVolumeBaseInterface(me)


def check_fields(cal, Cm, V, cellmass, rtol=1e-7, built=None):
    """-> None or a failure description: compliances inverse, tensor definitions, ordering, velocities"""
    me, vb = built or native_vb(cal, Cm, V, cellmass)
    nt, ntv = Cm.shape[:2]
    Sm = numpy.zeros_like(Cm)
    for k, a in me._compliances.items():
        I, J = k.voigt
        Sm[:, :, I - 1, J - 1] = a
        Sm[:, :, J - 1, I - 1] = a
    eye = numpy.einsum("tvij,tvjk->tvik", Cm, Sm)
    if not numpy.allclose(eye, numpy.eye(6), atol=max(1e-9, 1e-10 * numpy.linalg.cond(Cm).max())):
        return "reported compliances are not the inverse of the reported stiffness (max |C S - 1| = %.3g)" % numpy.abs(eye - numpy.eye(6)).max()
    f = numpy.array([1, 1, 1, 2, 2, 2.0])
    from cij.util import c_
    def T4(M, scale):
        out = numpy.zeros((nt, ntv, 3, 3, 3, 3))
        for i, j, k, l in itertools.product(range(3), repeat=4):
            I, J = c_(i + 1, j + 1, k + 1, l + 1).voigt
            out[:, :, i, j, k, l] = M[:, :, I - 1, J - 1] / ((f[I - 1] * f[J - 1]) if scale else 1.0)
        return out
    C4, S4 = T4(Cm, False), T4(Sm, True)
    iijj = lambda X: numpy.einsum("tviijj->tv", X)
    ijij = lambda X: numpy.einsum("tvijij->tv", X)
    KV, GV = iijj(C4) / 9, (3 * ijij(C4) - iijj(C4)) / 30
    KR, GR = 1 / iijj(S4), 15 / (6 * ijij(S4) - 2 * iijj(S4))
    for name, want in (("bulk_modulus_voigt", KV), ("shear_modulus_voigt", GV), ("bulk_modulus_reuss", KR), ("shear_modulus_reuss", GR),
                       ("bulk_modulus_voigt_reuss_hill", (KV + KR) / 2), ("shear_modulus_voigt_reuss_hill", (GV + GR) / 2)):
        got = getattr(vb, name)
        if not numpy.allclose(got, want, rtol=rtol, atol=0):
            return "%s differs from the tensor definition (max rel %.3g)" % (name, numpy.abs(got / want - 1).max())
    eps = 1e-9
    if not (numpy.all(KR <= (KV + KR) / 2 * (1 + eps)) and numpy.all(GR <= GV * (1 + eps))):
        return "Reuss <= Hill <= Voigt violated"
    if not (numpy.all(vb.bulk_modulus_reuss <= vb.bulk_modulus_voigt_reuss_hill * (1 + eps)) and
            numpy.all(vb.bulk_modulus_voigt_reuss_hill <= vb.bulk_modulus_voigt * (1 + eps)) and
            numpy.all(vb.shear_modulus_reuss <= vb.shear_modulus_voigt_reuss_hill * (1 + eps)) and
            numpy.all(vb.shear_modulus_voigt_reuss_hill <= vb.shear_modulus_voigt * (1 + eps))):
        return "reported Reuss <= Hill <= Voigt violated"
    RY_J, BOHR = 2.1798723611030e-18, 5.29177210903e-11
    rho = cellmass * 1e-3 / 6.02214076e23 / (V * BOHR ** 3)                       # kg / m^3
    G_pa = (GV + GR) / 2 * RY_J / BOHR ** 3
    K_pa = (KV + KR) / 2 * RY_J / BOHR ** 3
    vs, vp = numpy.sqrt(G_pa / rho[None, :]) / 1e3, numpy.sqrt((K_pa + 4 * G_pa / 3) / rho[None, :]) / 1e3
    if not numpy.allclose(vb.secondary_velocities, vs, rtol=1e-6) or not numpy.allclose(vb.primary_velocities, vp, rtol=1e-6):
        return "velocities differ from sqrt(G/rho), sqrt((K+4G/3)/rho) in km/s"
    return None


def native_fields(cal):
    """bounded fall-back of the deductive obligations: tensor definitions, inverse, ordering and SI velocities on random SPD fields with real numpy, one of them with histories"""
    rnd = numpy.random.RandomState(17)
    for i in range(8):
        cond = 10 ** rnd.uniform(0.3, 6.0)
        Cm = numpy.array([[random_spd(rnd, cond) for _ in range(3)] for _ in range(2)])
        V = numpy.sort(rnd.uniform(200, 900, size=3))[::-1]
        cm = float(rnd.uniform(20, 400))
        try:
            msg = check_fields(cal, Cm, V, cm, rtol=max(1e-7, cond * 1e-13)) or (history_fields(cal, rnd, Cm, V, cm, max(1e-7, cond * 1e-13)) if i == 0 else None)
        except Exception as e:
            msg = "raises %r" % (e,)
        if msg:
            return {"reproduced": True, "condition_number": cond, "stiffness": Cm.tolist(), "V": V.tolist(), "cellmass": cm, "observed": msg}
    return {"reproduced": False, "evaluations": 8, "note": "8 random SPD stiffness fields (condition numbers 2..1e6): S = C^-1, tensor definitions, Reuss<=Hill<=Voigt, SI velocities; histories on one"}


def history_fields(cal, rnd, Cm, V, cm, rt):
    """histories on the real objects: a second calculator built while the first is alive; averages / velocities read in another order; the volume-base results
    written (every VRH / velocity keyword through the real ResultsWriter, files discarded) and read again afterwards"""
    rw = importlib.import_module("cij.io.output.results_writer")
    first = native_vb(cal, Cm, V, cm)
    Cm2 = numpy.array([[random_spd(rnd, 50.0) for _ in range(Cm.shape[1])] for _ in range(Cm.shape[0])])
    second = native_vb(cal, Cm2, V * 0.9, cm * 1.5)
    _ = second[1].primary_velocities, second[1].bulk_modulus_reuss
    msg = check_fields(cal, Cm, V, cm, rtol=rt, built=first)
    if msg:
        return "after a second calculator was built in the same process, the FIRST one reports: " + msg
    vb = first[1]
    vb.write_table = lambda fname, value: None
    before = {n: numpy.array(getattr(vb, n), copy=True) for n in ("bulk_modulus_voigt", "bulk_modulus_reuss", "shear_modulus_voigt", "primary_velocities")}
    try:
        w = rw.ResultsWriter(vb)
        for kw in ("bm_V", "bm_R", "bm_VRH", "G_V", "G_R", "G_VRH", "vs", "vp", {"keyword": "bm_V", "unit": "kbar"}):
            try:
                w.write(kw)
            except KeyError:
                pass
    except Exception as e:
        return "writing the volume-base averages raises %r" % (e,)
    for n, a in before.items():
        if not numpy.array_equal(numpy.asarray(getattr(vb, n)), a):
            return "%s reads differently after the results were written (factor %.6g)" % (n, float(numpy.ravel(numpy.asarray(getattr(vb, n)))[0] / numpy.ravel(a)[0]))
    msg = check_fields(cal, Cm, V, cm, rtol=rt, built=first)
    if msg:
        return "after the volume-base results were written: " + msg
    msg = check_fields(cal, Cm2, V * 0.9, cm * 1.5, rtol=max(rt, 1e-7), built=second)
    if msg:
        return "second calculator of the process: " + msg
    return None


def native_compliances(cal):
    rnd = numpy.random.RandomState(1)
    Cm = numpy.array([[random_spd(rnd, 10.0) for _ in range(2)] for _ in range(2)])
    # a generic full tensor and an orthotropic-plus-two-couplings pattern (zero pattern not closed under inversion)
    for label, mask in (("full", numpy.ones((6, 6))), ("partial", None)):
        M = Cm.copy()
        if mask is None:
            keep = numpy.eye(6)
            keep[:3, :3] = 1
            keep[0, 3] = keep[3, 0] = keep[0, 4] = keep[4, 0] = 1
            M = M * keep + numpy.eye(6) * 5
        msg = None
        try:
            me, vb = native_vb(cal, M, numpy.array([500.0, 450.0]), 200.0)
            Sm = numpy.linalg.inv(M)
            for I in range(6):
                for J in range(I, 6):
                    from cij.util import c_
                    k = c_(I + 1, J + 1)
                    if numpy.allclose(Sm[:, :, I, J], 0):
                        continue
                    if k not in me._compliances or not numpy.allclose(me._compliances[k], Sm[:, :, I, J], rtol=1e-8, atol=1e-14):
                        msg = "s%d%d %s" % (I + 1, J + 1, "missing" if k not in me._compliances else "wrong")
                        break
                if msg:
                    break
        except Exception as e:
            msg = "raises %r" % (e,)
        if msg:
            return {"reproduced": True, "pattern": label, "stiffness": M.tolist(), "observed": msg}
    return {"reproduced": False}


def bounded_spd(s, cal):
    rnd = numpy.random.RandomState(s.seed)
    n = 40 if s.tier == "quick" else 2000
    fails, distinct = [], 0
    for i in range(n):
        cond = 10 ** rnd.uniform(0.3, 7.5)
        Cm = numpy.array([[random_spd(rnd, cond) for _ in range(3)] for _ in range(2)])
        V = numpy.sort(rnd.uniform(200, 900, size=3))[::-1]
        cm = float(rnd.uniform(20, 400))
        distinct += 1
        try:
            rt = max(1e-7, cond * 1e-13)
            msg = check_fields(cal, Cm, V, cm, rtol=rt)
            if msg is None and i % 4 == 0:
                msg = history_fields(cal, rnd, Cm, V, cm, rt)
        except Exception as e:
            msg = "raises %r" % (e,)
        if msg:
            fails.append({"witness_id": "spd:%d" % i, "input": {"condition_number": cond, "stiffness": Cm.tolist(), "V": V.tolist(), "cellmass": cm},
                          "observed": msg, "expected": "S = C^-1, tensor definitions, Reuss<=Hill<=Voigt, SI velocities"})
            break
    s.bounded_standin("C07.spd_fields(real numpy)", "%d random SPD stiffness fields (2x3 grid points each), condition numbers 2..3e7, every fourth one followed by histories (second calculator alive, "
                      "results written through the real writer and read again), seed %d" % (n, s.seed),
                      n, distinct, fails, [CAL + "Calculator._calculate_compliances", VB + "*"])


MANIFEST = {
    "engine": "symnp", "category": "proof",
    "technique": "contract-based deductive verification: real VRH/velocity properties and _calculate_compliances on symbolic (T,V) fields "
                 "(z3 QF_LRA/NRA) against fourth-rank tensor definitions; finite enumeration of attribute names; bounded SPD runs",
    "text": "The six average properties are executed from /repo on symbolic stiffness/compliance fields of symbolic grid size and proved "
            "equal to C_iijj/9, (3C_ijij-C_iijj)/30, 1/S_iijj, 15/(6S_ijij-2S_iijj) and their means, the tensors being built by the checker "
            "through voigt.py's index maps. _calculate_compliances is run with numpy.linalg.inv as a recording contract stub: the matrix "
            "handed to inv is the symmetric assembly of the supplied components, every I<=J entry of the inverse is stored under its "
            "canonical key, and the vanishing-entry test looks at that entry. Velocities satisfy rho v^2 = modulus with rho = mass/V "
            "(NRA with Sqrt axioms), constants compared with exact-SI values; attribute lookup is enumerated over all 702 names. "
            "Reuss<=Hill<=Voigt: lemmas/Hill.lean (Lean 4 + Mathlib; Cauchy-Schwarz for a positive-definite 6x6 matrix and its inverse) is compiled "
            "on every run and its two inequalities are parsed and proved (z3) to be exactly the Reuss/Voigt formulas the code computes. "
            "Bounded: S=C^-1, the definitions, Reuss<=Hill<=Voigt and SI velocities on random SPD fields with real numpy.",
    "note": "numpy.linalg.inv assumed to be the matrix inverse; Reuss<=Hill<=Voigt proved over the reals (Lean), not over floats (A-FP); pint/scipy constants checked "
            "numerically. Bounded part: 40 (quick) / 2000 (thorough) SPD fields, condition numbers up to 3e7.",
}
