import argparse, importlib, json, os, sys, traceback
from . import core


def main(argv=None):
    ap = argparse.ArgumentParser(prog="check")
    ap.add_argument("pid")
    ap.add_argument("--tier", default=os.environ.get("VERIF_TIER", "quick"), choices=["quick", "thorough"])
    ap.add_argument("--replay", default=None)
    a = ap.parse_args(argv)
    seed = int(os.environ.get("VERIF_SEED", "0") or 0)
    import logging
    logging.getLogger("cij").setLevel(logging.CRITICAL)
    try:
        mod = importlib.import_module("props." + a.pid)
    except Exception:
        traceback.print_exc()
        print("CHECKER-ERROR cannot import props.%s" % a.pid)
        return 3
    if a.replay:
        with open(a.replay) as fp:
            rec = json.load(fp)
        if hasattr(mod, "replay"):
            return mod.replay(rec)
        print(json.dumps(rec, indent=1))
        return 0
    s = core.Session(a.pid, a.tier, seed, level=getattr(mod, "LEVEL", "proof"))
    try:
        mod.run(s)
    except Exception:
        s.crashed.append(("run", traceback.format_exc()[-3000:]))
    return s.finish(explanation=getattr(mod, "EXPLANATION", ""))


if __name__ == "__main__":
    sys.stdout.reconfigure(line_buffering=True)
    sys.exit(main())
