import argparse, importlib, json, os, sys, traceback
from . import core


def _frames(s, pid):
    """frame conditions of the contracts (contracts/frame_contracts.py): one obligation per Python file the property is anchored in"""
    if pid == "C14":
        return          # C14 carries the frame obligations of 15 files itself
    from contracts import frame_contracts
    frame_contracts.add(s, pid)


def main(argv=None):
    ap = argparse.ArgumentParser(prog="check")
    ap.add_argument("pid")
    ap.add_argument("--tier", default=os.environ.get("VERIF_TIER", "quick"), choices=["quick", "thorough"])
    ap.add_argument("--replay", default=None)
    a = ap.parse_args(argv)
    seed = int(os.environ.get("VERIF_SEED", "0") or 0)
    import logging
    logging.getLogger("cij").setLevel(logging.CRITICAL)
    try:
        mod = importlib.import_module("props." + a.pid)
    except Exception:
        traceback.print_exc()
        print("CHECKER-ERROR cannot import props.%s" % a.pid)
        return 3
    if a.replay:
        # replay = the recorded obligation is generated again from /repo's current source; exit 1 iff it fails again
        with open(a.replay) as fp:
            rec = json.load(fp)
        want = rec.get("failed_obligation")
        print("replaying obligation %r of %s (recorded witness: %s)" % (want, a.pid, str(rec.get("native_replay") or rec.get("model"))[:400]))
        os.environ["VERIF_EVIDENCE_DIR"] = os.environ.get("VERIF_EVIDENCE_DIR") or os.path.join(core.HERE, "replays", "_evidence")
        s = core.Session(a.pid, a.tier, seed, level=getattr(mod, "LEVEL", "proof"))
        s.keep_replays = True
        try:
            mod.run(s)
            _frames(s, a.pid)
        except Exception:
            s.crashed.append(("run", traceback.format_exc()[-3000:]))
        again = [(n, p, suf) for n, p, suf in s.violations if n == want]
        if again:
            print("VIOLATION property=%s replay=%s%s" % (a.pid, again[0][1], again[0][2]))
            return 1
        print("obligation %r holds on the current tree" % want)
        return 0
    s = core.Session(a.pid, a.tier, seed, level=getattr(mod, "LEVEL", "proof"))
    try:
        mod.run(s)
        _frames(s, a.pid)
    except Exception:
        s.crashed.append(("run", traceback.format_exc()[-3000:]))
    return s.finish(explanation=getattr(mod, "EXPLANATION", ""))


if __name__ == "__main__":
    sys.stdout.reconfigure(line_buffering=True)
    sys.exit(main())
