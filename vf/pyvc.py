"""pyvc -- verification-condition generator for discrete pure Python (DESIGN.md E1).

The repository file is re-parsed with `ast` on every run; functions are executed symbolically path by
path (re-execution with a decision trace).  Integers are mathematical (z3 Int), strings are concrete-length
sequences of abstract characters with an uninterpreted partial digit map, tuples have concrete length,
NamedTuples are tuples with a class tag, module-level constants are read from the *imported real module*
and encoded as finite maps.  Every construct outside the subset raises OutsideSubset (-> undecided).

Python semantics assumed are listed in SEMANTICS and copied into the evidence.
"""
import ast, itertools
import z3
from .core import OutsideSubset, EngineUnsound

SEMANTICS = [
    "int is mathematical Z (no overflow); bool is a subtype of int only in `<<` and arithmetic",
    "tuples have concrete length; == on tuples is component-wise; NamedTuple is a tuple with a class tag",
    "sorted() on a 2-tuple is stable ascending by key",
    "module-level dict/set constants are those of the imported real module, encoded as finite maps",
    "dict lookup with an absent key raises KeyError; wrong positional arity raises TypeError",
    "str is a concrete-length sequence of abstract characters; int(c) of a 1-char string is defined iff c is a "
    "decimal digit (uninterpreted partial map digit: Char -> 0..9), else ValueError",
    "str(n) for n >= 0 is the decimal expansion without leading zeros; for n < 0 it starts with '-'",
    "classmethod/property/staticmethod dispatch is resolved from the class body in the parsed file",
    "f-strings inside raise statements are not evaluated",
    "unbounded self-recursion with provably identical arguments is RecursionError",
]

DIGIT = z3.Function("digit", z3.IntSort(), z3.IntSort())  # -1 when the character is not a decimal digit
CHR = z3.Function("chr_of_digit", z3.IntSort(), z3.IntSort())  # the character str() prints for digit d (d = -1: '-')
_fresh = itertools.count()


def fresh_int(prefix="v"):
    return z3.Int("%s!%d" % (prefix, next(_fresh)))


# ----------------------------------------------------------------------------------------- values
class V:
    pass


class IntV(V):
    def __init__(self, z):
        self.z = z3.IntVal(z) if isinstance(z, int) else z
    pytype = "int"


class BoolV(V):
    def __init__(self, z):
        self.z = z3.BoolVal(z) if isinstance(z, bool) else z
    pytype = "bool"


class NoneV(V):
    pytype = "NoneType"


class StrV(V):
    """concrete length, each char an Int code; DIGIT(code) in -1..9"""
    pytype = "str"

    def __init__(self, chars):
        self.chars = list(chars)


class OpaqueV(V):
    """a value that must not be inspected (f-string message, logger ...)"""
    pytype = "opaque"

    def __init__(self, what=""):
        self.what = what


class TupleV(V):
    def __init__(self, items, cls=None):
        self.items = list(items)
        self.cls = cls  # name of a NamedTuple class in the module, or None

    @property
    def pytype(self):
        return self.cls or "tuple"


class ClsV(V):
    pytype = "type"

    def __init__(self, name):
        self.name = name


class EnumV(V):
    def __init__(self, cls, name):
        self.cls, self.name = cls, name
    pytype = "enum"


class ConstV(V):
    """concrete container constant from the real module (dict / set / list / tuple of ints & int tuples)"""
    pytype = "const"

    def __init__(self, py, view=None):
        self.py, self.view = py, view  # view: None | 'keys' | 'values'


class FuncV(V):
    pytype = "function"

    def __init__(self, node, owner=None, kind="function", bound=None):
        self.node, self.owner, self.kind, self.bound = node, owner, kind, bound

    @property
    def qualname(self):
        return (self.owner + "." if self.owner else "") + self.node.name


class LambdaV(V):
    pytype = "function"

    def __init__(self, node, env):
        self.node, self.env = node, env


class BuiltinV(V):
    pytype = "builtin"

    def __init__(self, name):
        self.name = name


class ExtV(V):
    """an object outside the verified module (an imported module or function, or a value an external contract returned):
    everything it can do is given by its handler -- attr(vm, name), call(vm, args, kwargs), truth(vm); anything else the
    code does with it is outside the subset.  Identity is the handler's `key`."""
    pytype = "external"

    def __init__(self, key, attr=None, call=None, truth=None):
        self.key, self._attr, self._call, self._truth = key, attr, call, truth

    def __repr__(self):
        return "Ext(%s)" % (self.key,)


class GenV(V):
    """already-evaluated generator expression (elements evaluated lazily at unpacking time)"""
    pytype = "generator"

    def __init__(self, thunks):
        self.thunks = thunks


# ----------------------------------------------------------------------------------------- outcomes
class Returned(Exception):
    def __init__(self, value):
        self.value = value


class Raised(Exception):
    def __init__(self, exc, detail=""):
        self.exc, self.detail = exc, detail


class Outcome:
    def __init__(self, pc, kind, value=None, exc=None, trace=None, defs=()):
        self.pc, self.kind, self.value, self.exc, self.trace = pc, kind, value, exc, trace
        self.defs = list(defs)   # definitional facts about auxiliary symbols (axiom instances, callee postconditions)

    def __repr__(self):
        return "<%s %s %s>" % (self.kind, self.exc or show(self.value), z3.simplify(z3.And(*self.pc)) if self.pc else True)


def show(v):
    if isinstance(v, (IntV, BoolV)):
        return str(z3.simplify(v.z))
    if isinstance(v, TupleV):
        return (v.cls or "") + "(" + ", ".join(show(i) for i in v.items) + ")"
    if isinstance(v, EnumV):
        return v.cls + "." + v.name
    if isinstance(v, NoneV):
        return "None"
    if isinstance(v, StrV):
        return "str[%d]" % len(v.chars)
    return repr(v)


def const_to_value(x):
    """real python constant -> symbolic value (for table look-ups)"""
    if isinstance(x, bool):
        return BoolV(x)
    if isinstance(x, int):
        return IntV(x)
    if isinstance(x, tuple):
        cls = type(x).__name__ if hasattr(x, "_fields") else None
        return TupleV([const_to_value(i) for i in x], cls)
    if x is None:
        return NoneV()
    if isinstance(x, str):
        return StrV([z3.IntVal(ord(c)) for c in x])
    raise OutsideSubset("constant %r" % (x,))


def eq_values(a, b):
    """z3 Bool for python `a == b` (None if types make it constant False)"""
    if isinstance(a, (IntV, BoolV)) and isinstance(b, (IntV, BoolV)):
        return as_int(a) == as_int(b)
    if isinstance(a, TupleV) and isinstance(b, TupleV):
        if len(a.items) != len(b.items):
            return z3.BoolVal(False)
        return z3.And(*[eq_values(x, y) for x, y in zip(a.items, b.items)]) if a.items else z3.BoolVal(True)
    if isinstance(a, NoneV) and isinstance(b, NoneV):
        return z3.BoolVal(True)
    if isinstance(a, EnumV) and isinstance(b, EnumV):
        return z3.BoolVal(a.cls == b.cls and a.name == b.name)
    if isinstance(a, ClsV) and isinstance(b, ClsV):
        return z3.BoolVal(a.name == b.name)
    if isinstance(a, StrV) and isinstance(b, StrV):
        if len(a.chars) != len(b.chars):
            return z3.BoolVal(False)
        return z3.And(*[x == y for x, y in zip(a.chars, b.chars)]) if a.chars else z3.BoolVal(True)
    if type(a) is not type(b):
        if isinstance(a, OpaqueV) or isinstance(b, OpaqueV):
            raise OutsideSubset("== on opaque value")
        return z3.BoolVal(False)
    raise OutsideSubset("== on %s" % type(a).__name__)


def le_values(a, b):
    """python `a <= b` for ints and (lexicographically) for equal-length tuples of ints"""
    if isinstance(a, (IntV, BoolV)) and isinstance(b, (IntV, BoolV)):
        return as_int(a) <= as_int(b)
    if isinstance(a, TupleV) and isinstance(b, TupleV) and len(a.items) == len(b.items):
        r = z3.BoolVal(True)
        for x, y in reversed(list(zip(a.items, b.items))):
            if not (isinstance(x, (IntV, BoolV)) and isinstance(y, (IntV, BoolV))):
                raise OutsideSubset("ordering of nested tuples")
            r = z3.Or(as_int(x) < as_int(y), z3.And(as_int(x) == as_int(y), r))
        return r
    raise OutsideSubset("ordering of %s / %s" % (type(a).__name__, type(b).__name__))


def as_int(v):
    if isinstance(v, IntV):
        return v.z
    if isinstance(v, BoolV):
        return z3.If(v.z, z3.IntVal(1), z3.IntVal(0))
    raise OutsideSubset("int expected, got %s" % type(v).__name__)


def ite_value(c, a, b):
    if isinstance(a, IntV) and isinstance(b, IntV):
        return IntV(z3.If(c, a.z, b.z))
    if isinstance(a, BoolV) and isinstance(b, BoolV):
        return BoolV(z3.If(c, a.z, b.z))
    if isinstance(a, TupleV) and isinstance(b, TupleV) and len(a.items) == len(b.items) and a.cls == b.cls:
        return TupleV([ite_value(c, x, y) for x, y in zip(a.items, b.items)], a.cls)
    raise OutsideSubset("ite over %s/%s" % (type(a).__name__, type(b).__name__))


# ----------------------------------------------------------------------------------------- module model
class Module:
    def __init__(self, path, real_module):
        self.path = path
        with open(path) as fp:
            self.src = fp.read()
        self.tree = ast.parse(self.src, path)
        self.real = real_module
        self.classes = {}     # name -> {'node', 'fields', 'members': {name: FuncV}, 'enum': [...]}
        self.functions = {}
        self.aliases = {}     # module-level NAME = NAME
        for node in self.tree.body:
            if isinstance(node, ast.ClassDef):
                info = {"node": node, "fields": [], "members": {}, "enum": None,
                        "bases": [ast.unparse(b) for b in node.bases]}
                if "Enum" in info["bases"]:
                    info["enum"] = []
                for st in node.body:
                    if isinstance(st, ast.AnnAssign) and isinstance(st.target, ast.Name):
                        info["fields"].append(st.target.id)
                    elif isinstance(st, ast.Assign) and info["enum"] is not None:
                        info["enum"] += [t.id for t in st.targets if isinstance(t, ast.Name)]
                    elif isinstance(st, ast.FunctionDef):
                        kind = "method"
                        for d in st.decorator_list:
                            dn = ast.unparse(d)
                            if dn in ("classmethod", "staticmethod", "property"):
                                kind = dn
                            elif dn == "LazyProperty":
                                kind = "property"
                        info["members"][st.name] = FuncV(st, node.name, kind)
                self.classes[node.name] = info
            elif isinstance(node, ast.FunctionDef):
                self.functions[node.name] = FuncV(node)
            elif isinstance(node, ast.Assign) and len(node.targets) == 1 and isinstance(node.targets[0], ast.Name) \
                    and isinstance(node.value, ast.Name):
                self.aliases[node.targets[0].id] = node.value.id

    def lookup(self, name):
        if name in self.aliases:
            return self.lookup(self.aliases[name])
        if name in self.classes:
            return ClsV(name)
        if name in self.functions:
            return self.functions[name]
        if name in getattr(self, "externals", {}):
            return self.externals[name]
        if hasattr(self.real, name):
            x = getattr(self.real, name)
            if isinstance(x, (dict, set, frozenset, list, tuple, str)):
                return ConstV(x)
            if isinstance(x, (int, bool)):
                return const_to_value(x)
        raise OutsideSubset("name %s" % name)

    def member(self, cls, name):
        return self.classes[cls]["members"].get(name)


# ----------------------------------------------------------------------------------------- the VM
class VM:
    MAX_DEPTH = 12

    def __init__(self, module, contracts=None, own=None, check_ms=2000):
        self.m = module
        self.contracts = contracts or {}
        self.own = own            # qualname whose body is being verified (its own contract is not used)
        self.pc = []
        self.defs = []
        self.trace = []
        self.plan = []
        self.pending = []
        self.stack = []
        self.callsite_failures = []
        self.check_ms = check_ms
        self.solver_calls = 0

    # ---- path control
    def feasible(self, cond):
        s = z3.Solver()
        s.set("timeout", self.check_ms)
        s.add(*self.pc)
        s.add(*self.defs)
        s.add(cond)
        self.solver_calls += 1
        return s.check() != z3.unsat

    def decide(self, cond):
        cond = z3.simplify(cond)
        if z3.is_true(cond):
            return True
        if z3.is_false(cond):
            return False
        k = len(self.trace)
        if k < len(self.plan):
            d = self.plan[k]
        else:
            ft, ff = self.feasible(cond), self.feasible(z3.Not(cond))
            if ft and ff:
                d = True
                self.pending.append(self.trace + [False])
            elif ft:
                d = True
            elif ff:
                d = False
            else:
                raise Infeasible()
        self.trace.append(d)
        self.pc.append(cond if d else z3.Not(cond))
        return d

    def truth(self, v):
        if isinstance(v, BoolV):
            return self.decide(v.z)
        if isinstance(v, IntV):
            return self.decide(v.z != 0)
        if isinstance(v, NoneV):
            return False
        if isinstance(v, TupleV):
            return len(v.items) > 0
        if isinstance(v, StrV):
            return len(v.chars) > 0
        if isinstance(v, (ClsV, EnumV, FuncV)):
            return True
        if isinstance(v, ExtV) and v._truth is not None:
            return v._truth(self)
        raise OutsideSubset("truth value of %s" % type(v).__name__)

    # ---- exploring all paths of a call
    def explore(self, fn, args, pre=(), kwargs=None, max_paths=5000):
        outcomes = []
        work = [[]]
        while work:
            plan = work.pop()
            self.pc, self.defs, self.trace, self.plan, self.pending, self.stack = [], list(pre), [], plan, [], []
            try:
                try:
                    v = self.call(fn, list(args), dict(kwargs or {}))
                    outcomes.append(Outcome(list(self.pc), "return", value=v, trace=list(self.trace), defs=self.defs[len(pre):]))
                except Raised as r:
                    outcomes.append(Outcome(list(self.pc), "raise", exc=r.exc, trace=list(self.trace), defs=self.defs[len(pre):]))
            except Infeasible:
                pass
            work.extend(self.pending)
            if len(outcomes) > max_paths:
                raise OutsideSubset("more than %d paths" % max_paths)
        return outcomes

    # ---- calls
    def call(self, f, args, kwargs):
        if isinstance(f, BuiltinV):
            return self.builtin(f.name, args, kwargs)
        if isinstance(f, ExtV):
            if f._call is None:
                raise OutsideSubset("call of external %s" % (f.key,))
            return f._call(self, args, kwargs)
        if isinstance(f, ClsV):
            return self.construct(f.name, args, kwargs)
        if isinstance(f, LambdaV):
            env = dict(f.env)
            params = [a.arg for a in f.node.args.args]
            if len(params) != len(args):
                raise Raised("TypeError", "lambda arity")
            env.update(zip(params, args))
            return self.eval(f.node.body, env)
        if isinstance(f, FuncV):
            if f.bound is not None:
                args = [f.bound] + args
            q = f.qualname
            if q in self.contracts and q != self.own:
                return self.call_contract(q, self.contracts[q], args, kwargs)
            return self.inline(f, args, kwargs)
        raise OutsideSubset("call of %s" % type(f).__name__)

    def bind(self, node, args, kwargs):
        a = node.args
        if a.kwonlyargs or a.kwarg or a.posonlyargs:
            raise OutsideSubset("kw-only / **kwargs parameters")
        params = [p.arg for p in a.args]
        env = {}
        n = len(params)
        if a.vararg:
            env[a.vararg.arg] = TupleV(args[n:])
            pos = args[:n]
        else:
            if len(args) > n:
                raise Raised("TypeError", "%s() takes %d positional arguments but %d were given" % (node.name, n, len(args)))
            pos = args
        env.update(zip(params, pos))
        defaults = a.defaults
        for i, p in enumerate(params):
            if p in env:
                if p in kwargs:
                    raise Raised("TypeError", "multiple values for %s" % p)
                continue
            if p in kwargs:
                env[p] = kwargs.pop(p)
                continue
            di = i - (n - len(defaults))
            if di >= 0:
                env[p] = self.eval(defaults[di], {})
            else:
                raise Raised("TypeError", "%s() missing required argument %s" % (node.name, p))
        if kwargs:
            raise Raised("TypeError", "unexpected keyword %s" % list(kwargs))
        return env

    def inline(self, f, args, kwargs):
        key = (f.qualname, tuple(self._sig(a) for a in args))
        for (q, prev_args) in self.stack:
            if q == f.qualname and len(prev_args) == len(args) and self._same_args(prev_args, args):
                raise Raised("RecursionError", "unbounded recursion in %s" % q)
        if len(self.stack) > self.MAX_DEPTH:
            raise OutsideSubset("call depth > %d in %s" % (self.MAX_DEPTH, f.qualname))
        env = self.bind(f.node, args, kwargs)
        env["__owner__"] = f.owner
        self.stack.append((f.qualname, list(args)))
        try:
            try:
                self.exec_block(f.node.body, env)
            except Returned as r:
                return r.value
            return NoneV()
        finally:
            self.stack.pop()

    def _sig(self, a):
        return type(a).__name__

    def _same_args(self, xs, ys):
        conds = []
        for x, y in zip(xs, ys):
            if type(x) is not type(y):
                return False
            if isinstance(x, (ClsV, EnumV, NoneV, IntV, BoolV, TupleV, StrV)):
                try:
                    conds.append(eq_values(x, y))
                except OutsideSubset:
                    return False
            else:
                return False
        goal = z3.And(*conds) if conds else z3.BoolVal(True)
        s = z3.Solver()
        s.set("timeout", self.check_ms)
        s.add(*self.pc)
        s.add(*self.defs)
        s.add(z3.Not(goal))
        return s.check() == z3.unsat

    def call_contract(self, q, c, args, kwargs):
        if kwargs:
            raise OutsideSubset("keyword call of contracted %s" % q)
        cargs = c.project(args)
        req = c.requires(*cargs)
        s = z3.Solver()
        s.set("timeout", self.check_ms)
        s.add(*self.pc)
        s.add(*self.defs)
        s.add(z3.Not(req))
        if s.check() != z3.unsat:
            self.callsite_failures.append((q, list(self.pc) + list(self.defs)))
        for case in c.cases:
            if self.decide(case.when(*cargs)):
                if case.raises:
                    raise Raised(case.raises, "by contract of %s" % q)
                res = case.result()
                self.defs.append(case.ensures(*(list(cargs) + [res])))
                return res
        raise Infeasible()

    def construct(self, cls, args, kwargs):
        info = self.m.classes[cls]
        if info["fields"]:
            if kwargs:
                raise OutsideSubset("keyword construction")
            if len(args) != len(info["fields"]):
                raise Raised("TypeError", "%s.__new__() arity %d != %d" % (cls, len(args), len(info["fields"])))
            return TupleV(args, cls)
        raise OutsideSubset("construction of %s" % cls)

    def builtin(self, name, args, kwargs):
        if name == "sorted":
            if len(args) != 1:
                raise OutsideSubset("sorted arity")
            items = self.iterate(args[0])
            keyf = kwargs.get("key")
            if set(kwargs) - {"key"}:
                raise OutsideSubset("sorted kwargs")
            if len(items) != 2:
                raise OutsideSubset("sorted on %d items" % len(items))
            keys = [self.call(keyf, [x], {}) if keyf else x for x in items]
            if self.decide(le_values(keys[0], keys[1])):
                return TupleV(items, "list")
            return TupleV([items[1], items[0]], "list")
        if name == "len":
            v = args[0]
            if isinstance(v, TupleV):
                return IntV(len(v.items))
            if isinstance(v, StrV):
                return IntV(len(v.chars))
            if isinstance(v, ConstV):
                return IntV(len(v.py))
            raise OutsideSubset("len of %s" % type(v).__name__)
        if name == "type":
            return ClsV("builtin:" + args[0].pytype)
        if name == "tuple":
            return TupleV(self.iterate(args[0]))
        if name == "str":
            return self.int_to_str(args[0])
        if name == "int":
            return self.str_to_int(args[0])
        raise OutsideSubset("builtin %s" % name)

    MAX_DIGITS = 7

    def int_to_str(self, v):
        if isinstance(v, StrV):
            return v
        if not isinstance(v, IntV):
            raise OutsideSubset("str() of %s" % type(v).__name__)
        n = v.z
        neg = self.decide(n < 0)
        a = -n if neg else n
        for d in range(1, self.MAX_DIGITS + 1):
            hi = 10 ** d
            if self.decide(a < hi):
                chars = []
                for k in range(d):
                    dig = (a / (10 ** (d - 1 - k))) % 10
                    self.defs.append(DIGIT(CHR(dig)) == dig)
                    chars.append(CHR(dig))
                if neg:
                    self.defs.append(DIGIT(CHR(z3.IntVal(-1))) == -1)
                    chars = [CHR(z3.IntVal(-1))] + chars
                return StrV(chars)
        raise OutsideSubset("integer with more than %d digits" % self.MAX_DIGITS)

    def str_to_int(self, v):
        if isinstance(v, IntV):
            return v
        if not isinstance(v, StrV):
            raise OutsideSubset("int() of %s" % type(v).__name__)
        if len(v.chars) != 1:
            raise OutsideSubset("int() of a string of length %d" % len(v.chars))
        c = v.chars[0]
        if self.decide(z3.And(DIGIT(c) >= 0, DIGIT(c) <= 9)):
            return IntV(DIGIT(c))
        raise Raised("ValueError", "invalid literal for int()")

    def iterate(self, v):
        if isinstance(v, TupleV):
            return list(v.items)
        if isinstance(v, StrV):
            return [StrV([c]) for c in v.chars]
        if isinstance(v, GenV):
            return [t() for t in v.thunks]
        if isinstance(v, ConstV) and isinstance(v.py, (list, tuple)):
            return [const_to_value(x) for x in v.py]
        raise OutsideSubset("iteration over %s" % type(v).__name__)

    # ---- statements
    def exec_block(self, stmts, env):
        for st in stmts:
            self.exec(st, env)

    def exec(self, st, env):
        if isinstance(st, ast.Return):
            raise Returned(self.eval(st.value, env) if st.value is not None else NoneV())
        if isinstance(st, ast.If):
            if self.truth(self.eval(st.test, env)):
                self.exec_block(st.body, env)
            else:
                self.exec_block(st.orelse, env)
            return
        if isinstance(st, ast.Raise):
            exc = st.exc
            name = None
            if isinstance(exc, ast.Call):
                name = ast.unparse(exc.func)
            elif exc is not None:
                name = ast.unparse(exc)
            raise Raised(name or "reraise", "explicit raise at line %d" % st.lineno)
        if isinstance(st, ast.Assign):
            val = self.eval(st.value, env)
            for t in st.targets:
                self.assign(t, val, env)
            return
        if isinstance(st, ast.Expr):
            if isinstance(st.value, ast.Constant):
                return  # docstring
            self.eval(st.value, env)
            return
        if isinstance(st, ast.Pass):
            return
        raise OutsideSubset("statement %s at line %d" % (type(st).__name__, st.lineno))

    def assign(self, target, val, env):
        if isinstance(target, ast.Name):
            env[target.id] = val
        elif isinstance(target, (ast.Tuple, ast.List)):
            items = self.iterate(val)
            if len(items) != len(target.elts):
                raise Raised("ValueError", "unpack")
            for t, v in zip(target.elts, items):
                self.assign(t, v, env)
        else:
            raise OutsideSubset("assignment target %s" % type(target).__name__)

    # ---- expressions
    def eval(self, e, env):
        m = getattr(self, "e_" + type(e).__name__, None)
        if m is None:
            raise OutsideSubset("expression %s at line %d" % (type(e).__name__, getattr(e, "lineno", 0)))
        return m(e, env)

    def e_Constant(self, e, env):
        return const_to_value(e.value)

    def e_Name(self, e, env):
        if e.id in env:
            return env[e.id]
        if e.id in ("sorted", "len", "type", "tuple", "str", "int"):
            if e.id in ("str", "int") :
                pass
            return BuiltinV(e.id)
        return self.m.lookup(e.id)

    def e_JoinedStr(self, e, env):
        return OpaqueV("f-string")

    def e_Tuple(self, e, env):
        items = []
        for x in e.elts:
            if isinstance(x, ast.Starred):
                items += self.iterate(self.eval(x.value, env))
            else:
                items.append(self.eval(x, env))
        return TupleV(items)

    e_List = e_Tuple

    def e_Set(self, e, env):
        vals = [self.eval(x, env) for x in e.elts]
        if all(isinstance(v, IntV) and z3.is_int_value(v.z) for v in vals):
            return ConstV(frozenset(v.z.as_long() for v in vals))
        raise OutsideSubset("non-constant set literal")

    def e_Lambda(self, e, env):
        return LambdaV(e, env)

    def e_GeneratorExp(self, e, env):
        if len(e.generators) != 1 or e.generators[0].ifs:
            raise OutsideSubset("generator expression shape")
        g = e.generators[0]
        items = self.iterate(self.eval(g.iter, env))

        def mk(x):
            def thunk():
                env2 = dict(env)
                self.assign(g.target, x, env2)
                return self.eval(e.elt, env2)
            return thunk
        return GenV([mk(x) for x in items])

    def e_BoolOp(self, e, env):
        # short-circuit; the value of and/or is only used as a truth value in the subset
        is_and = isinstance(e.op, ast.And)
        for x in e.values[:-1]:
            t = self.truth(self.eval(x, env))
            if is_and and not t:
                return BoolV(False)
            if not is_and and t:
                return BoolV(True)
        v = self.eval(e.values[-1], env)
        return BoolV(self.truth(v))

    def e_UnaryOp(self, e, env):
        v = self.eval(e.operand, env)
        if isinstance(e.op, ast.Not):
            if isinstance(v, BoolV):
                return BoolV(z3.Not(v.z))
            return BoolV(not self.truth(v))
        if isinstance(e.op, ast.USub):
            return IntV(-as_int(v))
        raise OutsideSubset("unary %s" % type(e.op).__name__)

    def e_BinOp(self, e, env):
        a, b = self.eval(e.left, env), self.eval(e.right, env)
        op = type(e.op).__name__
        if op == "LShift":
            x = as_int(a)
            if isinstance(b, BoolV):
                return IntV(z3.If(b.z, 2 * x, x))
            if isinstance(b, IntV) and z3.is_int_value(b.z) and b.z.as_long() >= 0:
                return IntV(x * (2 ** b.z.as_long()))
            raise OutsideSubset("<< by symbolic int")
        if op in ("Add", "Sub", "Mult"):
            x, y = as_int(a), as_int(b)
            return IntV({"Add": x + y, "Sub": x - y, "Mult": x * y}[op])
        raise OutsideSubset("binary %s" % op)

    def e_Compare(self, e, env):
        left = self.eval(e.left, env)
        result = None
        for op, rn in zip(e.ops, e.comparators):
            right = self.eval(rn, env)
            c = self.compare(op, left, right)
            result = c if result is None else z3.And(result, c)
            left = right
        return BoolV(result)

    def compare(self, op, a, b):
        n = type(op).__name__
        if n == "Eq":
            return eq_values(a, b)
        if n == "NotEq":
            return z3.Not(eq_values(a, b))
        if n in ("Is", "IsNot"):
            if isinstance(a, NoneV) or isinstance(b, NoneV):
                r = z3.BoolVal(isinstance(a, NoneV) and isinstance(b, NoneV))
                return r if n == "Is" else z3.Not(r)
            if isinstance(a, (ClsV, BuiltinV, EnumV)) and isinstance(b, (ClsV, BuiltinV, EnumV)):
                # classes, builtin types and enum members are singletons: identity is equality
                r = eq_values(a, b)
                return r if n == "Is" else z3.Not(r)
            raise OutsideSubset("`is` on non-None")
        if n in ("Lt", "LtE", "Gt", "GtE"):
            x, y = as_int(a), as_int(b)
            return {"Lt": x < y, "LtE": x <= y, "Gt": x > y, "GtE": x >= y}[n]
        if n in ("In", "NotIn"):
            r = self.member_of(a, b)
            return r if n == "In" else z3.Not(r)
        raise OutsideSubset("comparison %s" % n)

    def member_of(self, a, b):
        if isinstance(b, ConstV):
            py = b.py
            if isinstance(py, dict):
                elems = list(py.values()) if b.view == "values" else list(py.keys())
            else:
                elems = list(py)
            conds = []
            for x in elems:
                try:
                    conds.append(eq_values(a, const_to_value(x)))
                except OutsideSubset:
                    raise
            return z3.Or(*conds) if conds else z3.BoolVal(False)
        if isinstance(b, TupleV):
            conds = [eq_values(a, x) for x in b.items]
            return z3.Or(*conds) if conds else z3.BoolVal(False)
        raise OutsideSubset("membership in %s" % type(b).__name__)

    def e_Subscript(self, e, env):
        base = self.eval(e.value, env)
        if isinstance(e.slice, ast.Slice):
            raise OutsideSubset("slicing")
        idx = self.eval(e.slice, env)
        if isinstance(base, ConstV) and isinstance(base.py, dict):
            if not self.decide(self.member_of(idx, ConstV(base.py))):
                raise Raised("KeyError", "dict lookup")
            items = list(base.py.items())
            res = const_to_value(items[-1][1])
            for k, v in reversed(items[:-1]):
                res = ite_value(eq_values(idx, const_to_value(k)), const_to_value(v), res)
            return res
        if isinstance(base, (TupleV, StrV)) and isinstance(idx, IntV) and z3.is_int_value(idx.z):
            items = self.iterate(base)
            i = idx.z.as_long()
            if not -len(items) <= i < len(items):
                raise Raised("IndexError", "index")
            return items[i]
        raise OutsideSubset("subscript of %s" % type(base).__name__)

    def e_Attribute(self, e, env):
        base = self.eval(e.value, env)
        name = e.attr
        if isinstance(base, ExtV):
            if base._attr is None:
                raise OutsideSubset("attribute .%s of external %s" % (name, base.key))
            return base._attr(self, name)
        if isinstance(base, ClsV):
            info = self.m.classes.get(base.name)
            if info is None:
                raise OutsideSubset("attribute of %s" % base.name)
            if info["enum"] is not None and name in info["enum"]:
                return EnumV(base.name, name)
            f = info["members"].get(name)
            if f is None:
                raise Raised("AttributeError", name)
            if f.kind == "classmethod":
                return FuncV(f.node, f.owner, f.kind, bound=base)
            if f.kind == "staticmethod":
                return FuncV(f.node, f.owner, f.kind)
            raise OutsideSubset("unbound %s %s.%s" % (f.kind, base.name, name))
        if isinstance(base, TupleV) and base.cls in self.m.classes:
            info = self.m.classes[base.cls]
            if name in info["fields"]:
                return base.items[info["fields"].index(name)]
            f = info["members"].get(name)
            if f is None:
                raise Raised("AttributeError", name)
            if f.kind == "property":
                return self.call(FuncV(f.node, f.owner, "method", bound=base), [], {})
            if f.kind == "classmethod":
                return FuncV(f.node, f.owner, f.kind, bound=ClsV(base.cls))
            if f.kind == "staticmethod":
                return FuncV(f.node, f.owner, f.kind)
            return FuncV(f.node, f.owner, f.kind, bound=base)
        if isinstance(base, ConstV) and isinstance(base.py, dict) and name in ("keys", "values"):
            return _DictView(base.py, name)
        raise OutsideSubset("attribute .%s of %s" % (name, type(base).__name__))

    def e_Call(self, e, env):
        f = self.eval(e.func, env)
        if isinstance(f, _DictView):
            return ConstV(f.py, f.view)
        args = []
        for a in e.args:
            if isinstance(a, ast.Starred):
                args += self.iterate(self.eval(a.value, env))
            else:
                v = self.eval(a, env)
                if isinstance(v, GenV):
                    raise OutsideSubset("generator passed as a value")
                args.append(v)
        kwargs = {}
        for k in e.keywords:
            if k.arg is None:
                raise OutsideSubset("**kwargs call")
            kwargs[k.arg] = self.eval(k.value, env)
        return self.call(f, args, kwargs)

    def e_IfExp(self, e, env):
        return self.eval(e.body if self.truth(self.eval(e.test, env)) else e.orelse, env)


class _DictView(V):
    pytype = "method"

    def __init__(self, py, view):
        self.py, self.view = py, view


class Infeasible(Exception):
    pass


# compare `type(x) == int`
_orig_eq = eq_values


def eq_values(a, b):  # noqa: F811  (extends the structural equality with builtin type objects)
    if isinstance(a, ClsV) and isinstance(b, BuiltinV):
        return z3.BoolVal(a.name == "builtin:" + b.name)
    if isinstance(b, ClsV) and isinstance(a, BuiltinV):
        return z3.BoolVal(b.name == "builtin:" + a.name)
    return _orig_eq(a, b)


# ----------------------------------------------------------------------------------------- contracts
class Case:
    def __init__(self, when, raises=None, result=None, ensures=None):
        self.when, self.raises, self.result, self.ensures = when, raises, result, ensures


class Contract:
    """requires/cases over the *projected* arguments (project drops cls/self and maps values to z3 terms)"""

    def __init__(self, project, requires, cases):
        self.project, self.requires, self.cases = project, requires, cases


# ----------------------------------------------------------------------------------------- summaries
def merged(outcomes, component):
    """ite-merge of a per-path z3 term: component(outcome) -> z3 term for returning paths"""
    rets = [o for o in outcomes if o.kind == "return"]
    if not rets:
        raise EngineUnsound("no returning path")
    t = component(rets[-1])
    for o in reversed(rets[:-1]):
        t = z3.If(z3.And(*o.pc) if o.pc else z3.BoolVal(True), component(o), t)
    return t


def cond_of(outcomes, pred):
    cs = [z3.And(*o.pc) if o.pc else z3.BoolVal(True) for o in outcomes if pred(o)]
    return z3.Or(*cs) if cs else z3.BoolVal(False)


def eval_concrete(outcomes, subst):
    """find the path taken by a concrete input: subst is a list of (z3 var, z3 value). Returns the outcome
    whose path condition evaluates to true; auxiliary symbols (fresh result / char variables) are resolved by
    the solver."""
    hits = []
    for o in outcomes:
        s = z3.Solver()
        s.set("timeout", 5000)
        for c in list(o.pc) + list(o.defs):
            s.add(z3.substitute(c, *subst))
        if s.check() == z3.sat:
            hits.append((o, s.model()))
    return hits


# ----------------------------------------------------------------------------------------- contract checking
def pc_of(o):
    return z3.And(*o.pc) if o.pc else z3.BoolVal(True)


def check_cases(outcomes, cases, pre=(), tier="quick", name=""):
    """cases: list of dicts {when: z3 Bool, raises: True|str|None, post: fn(value)->z3 Bool}.
    For every path and every case:  pre /\\ pc /\\ when  =>  the path's outcome is the one the case demands.
    Also proves the paths cover the precondition.  Returns one core.Result (first failure wins)."""
    from . import smt, core
    t_total = 0.0
    n = 0
    sample = None
    # the cases must cover the precondition
    r = smt.prove(z3.Or(*[c["when"] for c in cases]), list(pre), tier=tier, name=name + ":cases-exhaustive")
    if r.status != core.PROVED:
        r.detail = "contract cases not exhaustive: " + r.detail
        return r
    alldefs = [d for o in outcomes for d in o.defs]
    r = smt.prove(z3.Or(*[pc_of(o) for o in outcomes]) if outcomes else z3.BoolVal(False), list(pre) + alldefs, tier=tier,
                  name=name + ":paths-exhaustive")
    if r.status != core.PROVED:
        r.detail = "explored paths do not cover the precondition (engine): " + r.detail
        r.status = core.ERROR
        return r
    for o in outcomes:
        for c in cases:
            hyp = list(pre) + list(o.defs) + list(o.pc) + [c["when"]]
            if c.get("raises"):
                if o.kind == "raise" and (c["raises"] is True or c["raises"] == o.exc):
                    continue
                goal = z3.BoolVal(False)
                what = "must raise%s but %s" % ("" if c["raises"] is True else " " + c["raises"],
                                                "returns " + show(o.value) if o.kind == "return" else "raises " + str(o.exc))
            else:
                if o.kind == "raise":
                    goal = z3.BoolVal(False)
                    what = "must return but raises %s" % o.exc
                else:
                    try:
                        goal = c["post"](o.value)
                    except OutsideSubset as e:
                        goal = z3.BoolVal(False)
                        what = "result has the wrong shape: %s (%s)" % (show(o.value), e)
                    else:
                        what = "postcondition fails for result " + show(o.value)
            r = smt.prove(goal, hyp, tier=tier, name=name)
            t_total += r.time_s
            n += 1
            sample = sample or r.sample
            if r.status != core.PROVED:
                r.detail = "%s [%s] on path %s: %s" % (name, c.get("label", ""), z3.simplify(pc_of(o)), what) + " | " + r.detail
                return r
    return core.Result(core.PROVED, "z3", "%d path x case conditions" % n, time_s=t_total, sample=sample)
