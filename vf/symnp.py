"""symnp -- run the REAL repository functions on shape-polymorphic symbolic arrays (DESIGN.md E2).

Nothing is translated: the function objects imported from /repo are executed by CPython with the module's
`numpy` global rebound to the stub `SymNumpy` below.  Values are

  Sc        a symbolic real scalar (wrapper around a z3 Real term)
  SymArr    an array whose shape entries are symbolic dimensions (Dim), the literal 1 or small ints and whose
            element function maps an index tuple (z3 Int terms) to a z3 term

Broadcasting is positional: two dimensions are compatible iff one is 1 or they are the *same* dimension,
otherwise a ShapeObligation fails (this is how "wrong axis"/"transposed" is caught for all sizes at once).
Reductions over a symbolic dimension become applications of a registered sum function (SumDef); equalities
between terms with sums are proved by three rules -- factor out index-free factors (linearity), merge sums with
equal bodies (congruence), combine a linear combination of sums into one sum -- and everything else is left
to z3/cvc5 (vf.smt).  A data-dependent branch on a symbolic value calls __bool__ and raises OutsideSubset.
"""
import fractions, itertools, math
import os
import z3
from .core import OutsideSubset, EngineUnsound
from . import core, smt

_ids = itertools.count()
FRAME = {"epoch": 0, "start": None, "violations": []}
RS = z3.RealSort()
IS = z3.IntSort()


class ShapeObligation(Exception):
    """numpy would raise a broadcasting / axis error for generic sizes"""


# ------------------------------------------------------------------------------------------ scalars
def rat(x):
    """python number -> z3 Real numeral.  Floats are read as the simplest rational within 1 ulp (A-FP: machine
    constants such as 1/5 or 4/3 are treated as the mathematical numbers)."""
    if isinstance(x, bool):
        return z3.RealVal(int(x))
    if isinstance(x, int):
        return z3.RealVal(x)
    if isinstance(x, fractions.Fraction):
        return z3.RealVal(str(x))
    if isinstance(x, float):
        if math.isnan(x) or math.isinf(x):
            raise OutsideSubset("non-finite float constant")
        f = fractions.Fraction(x)
        g = f.limit_denominator(10 ** 6)
        if g == f or abs(float(g) - x) <= abs(math.ulp(x)):
            f = g
        return z3.RealVal(str(f))
    raise OutsideSubset("constant %r" % (x,))


def term(x):
    """anything scalar -> z3 term (Real or Bool)"""
    if isinstance(x, Sc):
        return x.z
    if isinstance(x, z3.ExprRef):
        if z3.is_int(x):
            return z3.ToReal(x)
        return x
    if hasattr(x, "item") and getattr(x, "shape", None) == ():
        return rat(x.item())
    return rat(x)


EXP = z3.Function("Exp", RS, RS)
SQRT = z3.Function("Sqrt", RS, RS)
LOG = z3.Function("Log", RS, RS)


def mkexp(z):
    """Exp(z) with the argument brought to the canonical form N/D (polynomial normal forms), so that e.g.
    HK*(w/T) and (HK*w)/T denote the same application"""
    from . import ratid
    n, ds = ratid._frac_multiset(z)
    n = z3.simplify(n, som=True)
    if ds:
        return EXP(n / z3.simplify(ratid._prod(ds), som=True))
    return EXP(n)


class Sc:
    """symbolic real scalar"""
    __array_ufunc__ = None

    def __init__(self, z):
        self.z = term(z) if not isinstance(z, z3.ExprRef) else (z3.ToReal(z) if z3.is_int(z) else z)

    def _b(self, o, f):
        if isinstance(o, SymArr):
            return NotImplemented
        if hasattr(o, "shape") and getattr(o, "shape", ()) != () and hasattr(o, "dtype"):
            import numpy    # a real numpy array on the other side (object-array cross-check): element-wise
            return numpy.frompyfunc(lambda x: Sc(f(self.z, term(x))), 1, 1)(o)
        try:
            return Sc(f(self.z, term(o)))
        except OutsideSubset:
            return NotImplemented

    def __add__(self, o): return self._b(o, lambda a, b: a + b)
    def __radd__(self, o): return self._b(o, lambda a, b: b + a)
    def __sub__(self, o): return self._b(o, lambda a, b: a - b)
    def __rsub__(self, o): return self._b(o, lambda a, b: b - a)
    def __mul__(self, o): return self._b(o, lambda a, b: a * b)
    def __rmul__(self, o): return self._b(o, lambda a, b: b * a)
    def __truediv__(self, o): return self._b(o, lambda a, b: a / b)
    def __rtruediv__(self, o): return self._b(o, lambda a, b: b / a)
    def __neg__(self): return Sc(-self.z)
    def __pos__(self): return self
    def __abs__(self): return Sc(z3.If(self.z >= 0, self.z, -self.z))

    def __pow__(self, n):
        return Sc(zpow(self.z, n))

    def exp(self): return Sc(mkexp(self.z))
    def sqrt(self): return Sc(SQRT(self.z))
    def log(self): return Sc(LOG(self.z))
    def conjugate(self): return self

    def __eq__(self, o): return SB(self.z == term(o))
    def __ne__(self, o): return SB(self.z != term(o))
    def __lt__(self, o): return SB(self.z < term(o))
    def __le__(self, o): return SB(self.z <= term(o))
    def __gt__(self, o): return SB(self.z > term(o))
    def __ge__(self, o): return SB(self.z >= term(o))

    def __bool__(self):
        raise OutsideSubset("truth value of a symbolic scalar (data-dependent branch)")

    def __float__(self):
        raise OutsideSubset("float() of a symbolic scalar")

    def __int__(self):
        raise OutsideSubset("int() of a symbolic scalar")

    __index__ = __int__

    def __repr__(self):
        return "Sc(%s)" % self.z

    def __format__(self, spec):
        return "<%s>" % self.z

    def __hash__(self):
        return self.z.hash()


class Paths:
    """forking layer for the few value-dependent branches: a symbolic truth value asks the active Paths object; if
    the path condition does not decide the test both outcomes are explored by re-execution with a decision trace"""
    active = None

    def __init__(self, facts=(), max_paths=32):
        self.facts = list(facts)
        self.max_paths = max_paths
        self.pc, self.trace, self.plan, self.pending = [], [], [], []
        self.equal_dims = set()

    def feasible(self, c):
        s = z3.Solver()
        s.set("timeout", 400)      # unknown counts as feasible (sound: the path is then checked like any other)
        s.add(*self.facts)
        s.add(*self.pc)
        s.add(c)
        return s.check() != z3.unsat

    def decide(self, cond):
        k = len(self.trace)
        if k < len(self.plan):
            d = self.plan[k]
        else:
            ft, ff = self.feasible(cond), self.feasible(z3.Not(cond))
            if ft and ff:
                d = True
                self.pending.append(self.trace + [False])
            elif ft or not ff:
                d = True
            else:
                d = False
        self.trace.append(d)
        self.pc.append(cond if d else z3.Not(cond))
        return d

    def run(self, thunk):
        """-> [(path condition list, value)] over all feasible paths of thunk()"""
        out = []
        work = [[]]
        prev = Paths.active
        Paths.active = self
        try:
            while work:
                self.plan = work.pop()
                self.pc, self.trace, self.pending = [], [], []
                self.equal_dims = set()
                v = thunk()
                out.append((list(self.pc), v))
                work.extend(self.pending)
                if len(out) > self.max_paths:
                    raise OutsideSubset("more than %d value-dependent paths" % self.max_paths)
        finally:
            Paths.active = prev
        return out


def truth(z):
    s = z3.simplify(z)
    if z3.is_true(s):
        return True
    if z3.is_false(s):
        return False
    if Paths.active is None:
        raise OutsideSubset("truth value of a symbolic condition %s (data-dependent branch)" % s)
    if NO_FORK[0]:
        raise OutsideSubset("a branch on a condition about the GENERIC element of a sequence of symbolic length (a filter is not an element-wise map): %s" % s)
    return Paths.active.decide(s)


NO_FORK = [0]


class SB:
    """symbolic boolean"""

    def __init__(self, z):
        self.z = z

    def __bool__(self):
        return truth(self.z)

    def __invert__(self):
        return SB(z3.Not(self.z))


def zpow(z, n):
    if isinstance(n, Sc):
        raise OutsideSubset("symbolic exponent")
    if isinstance(n, float) and n == int(n):
        n = int(n)
    if isinstance(n, int):
        if n == 0:
            return z3.RealVal(1)
        r = z
        for _ in range(abs(n) - 1):
            r = r * z
        return r if n > 0 else 1 / r
    if n == 0.5:
        return SQRT(z)
    raise OutsideSubset("power %r" % (n,))


# ------------------------------------------------------------------------------------------ dimensions
DIMS = []


class Dim:
    """a symbolic array dimension; n is its (positive) size"""

    def __init__(self, name):
        self.name = name
        self.n = z3.Int("n_" + name)
        self.nr = z3.Real("rn_" + name)     # the same size as a real number (keeps the arithmetic queries purely real)
        DIMS.append(self)

    def __repr__(self):
        return self.name

    # the code compares an array size with a number: a size-dependent path.  It cannot be executed for a symbolic size; the constant is recorded so
    # that the obligation's bounded fall-back can run the real code at sizes on both sides of it.
    def _size_test(self, op, other):
        if isinstance(other, (int, float)) and not isinstance(other, bool):
            SIZE_THRESHOLDS.append((self.name, op, other))
        raise OutsideSubset("the code branches on the size of dimension %s (%s %r): a size-dependent path is outside the shape-polymorphic engine" % (self.name, op, other))

    # `x.shape[0] == y.shape[0]` in the code under verification: whether two DIFFERENT symbolic dimensions have the same size is a value-dependent question
    # (a square grid, as many q-points as modes ...).  It is forked like any other data-dependent branch: on the path where the sizes coincide the two
    # dimensions broadcast against each other (as they silently do in numpy).  Comparisons made by the engine itself keep identity semantics.
    def _from_code(self):
        import sys
        f = sys._getframe(2)
        return os.path.realpath(f.f_code.co_filename).startswith(os.path.realpath(core_REPO()) + os.sep)

    def __eq__(self, o):
        if o is self:
            return True
        if isinstance(o, Dim) and self._from_code():
            SIZE_THRESHOLDS.append((self.name, "== size of", o.name))
            if Paths.active is None:
                raise OutsideSubset("the code compares the sizes of dimensions %s and %s" % (self.name, o.name))
            eq = Paths.active.decide(self.n == o.n)
            if eq:
                Paths.active.equal_dims.add(frozenset((id(self), id(o))))
            return eq
        if isinstance(o, int) and not isinstance(o, bool) and self._from_code():
            return self._size_test("==", o)
        return NotImplemented if not isinstance(o, Dim) else False

    def __ne__(self, o):
        r = self.__eq__(o)
        return r if r is NotImplemented else (not r)

    __hash__ = object.__hash__

    def __gt__(self, o): return self._size_test(">", o)
    def __ge__(self, o): return self._size_test(">=", o)
    def __lt__(self, o): return self._size_test("<", o)
    def __le__(self, o): return self._size_test("<=", o)


SIZE_THRESHOLDS = []


def dim_size(d):
    return d.n if isinstance(d, Dim) else z3.IntVal(d)


def core_REPO():
    from . import core
    return core.REPO


def same_dim(a, b):
    if isinstance(a, Dim) or isinstance(b, Dim):
        if a is b:
            return True
        # two dimensions the current path assumes to be of equal size (forked at a size comparison in the code)
        return isinstance(a, Dim) and isinstance(b, Dim) and Paths.active is not None and frozenset((id(a), id(b))) in Paths.active.equal_dims
    return a == b


def bshape(s1, s2):
    n = max(len(s1), len(s2))
    out = []
    for k in range(1, n + 1):
        a = s1[-k] if k <= len(s1) else 1
        b = s2[-k] if k <= len(s2) else 1
        if same_dim(a, b):
            out.append(a)
        elif not isinstance(a, Dim) and a == 1:
            out.append(b)
        elif not isinstance(b, Dim) and b == 1:
            out.append(a)
        else:
            raise ShapeObligation("operands could not be broadcast together with shapes %s %s" % (s1, s2))
    return tuple(reversed(out))


def _pull(arr_shape, out_idx):
    """index of the operand element that feeds output index out_idx"""
    k = len(arr_shape)
    idx = out_idx[len(out_idx) - k:] if k else ()
    return tuple(z3.IntVal(0) if (not isinstance(d, Dim) and d == 1) else i for d, i in zip(arr_shape, idx))


# ------------------------------------------------------------------------------------------ sums
class SumDef:
    """fn(*params) = sum_{0 <= j < n_dim} body(params, j)"""

    def __init__(self, dim, params, j, body):
        self.id = next(_ids)
        self.dim, self.params, self.j, self.body = dim, params, j, body
        self.fn = z3.Function("SUM!%d_%s" % (self.id, dim.name), *([IS] * len(params) + [RS]))


SUMS = {}   # z3 decl name -> SumDef


def make_sum(x, axis):
    """sum of SymArr x over `axis` (symbolic dimension -> SumDef application, concrete -> expanded)"""
    d = x.shape[axis]
    out_shape = x.shape[:axis] + x.shape[axis + 1:]
    if not isinstance(d, Dim):
        def elem(idx, xe=x.elem, axis=axis, d=d):
            tot = None
            for k in range(d):
                e = xe(idx[:axis] + (z3.IntVal(k),) + idx[axis:])
                tot = e if tot is None else tot + e
            return tot if tot is not None else z3.RealVal(0)
        return SymArr(out_shape, elem)
    params = [z3.Int("p!%d_%d" % (next(_ids), k)) for k in range(len(out_shape))]
    j = z3.Int("j!%d_%s" % (next(_ids), d.name))
    body = x.elem(tuple(params[:axis]) + (j,) + tuple(params[axis:]))
    sd = SumDef(d, params, j, body)
    SUMS[sd.fn.name()] = sd
    return SymArr(out_shape, lambda idx, sd=sd: sd.fn(*idx))


# ------------------------------------------------------------------------------------------ arrays
def is_arr(x):
    return isinstance(x, SymArr)


class SymArr:
    __array_priority__ = 2000

    def __init__(self, shape, elem, kind="real"):
        self.shape = tuple(shape)
        self.elem = elem
        self.kind = kind
        self.born = FRAME["epoch"]
        self.label = None

    def _mutating(self, how):
        """frame bookkeeping: writing into an array that existed before the function under verification was
        called (an input, a cached callee result) is recorded; the contract must allow it explicitly"""
        if FRAME["start"] is not None and self.born < FRAME["start"]:
            FRAME["violations"].append("%s of pre-existing array %s%s" % (how, self.label or "", self.shape))

    def _inplace(self, o, f, how):
        r = self._bin(o, f)
        if not same_shape(r.shape, self.shape):
            raise ShapeObligation("in-place %s: operands could not be broadcast into shape %s" % (how, self.shape))
        self._mutating("in-place " + how)
        self.elem = r.elem
        return self

    def __iadd__(self, o): return self._inplace(o, lambda a, b: a + b, "+=")
    def __isub__(self, o): return self._inplace(o, lambda a, b: a - b, "-=")
    def __imul__(self, o): return self._inplace(o, lambda a, b: a * b, "*=")
    def __itruediv__(self, o): return self._inplace(o, lambda a, b: a / b, "/=")

    # -- construction helpers
    @staticmethod
    def atom(name, shape, fact=None):
        """an array of unconstrained entries name(i,j,..); fact(idx, value)->z3 Bool is an element-wise
        assumption instantiated for every occurrence in a goal"""
        f = z3.Function(name, *([IS] * len(shape) + [RS])) if shape else None
        if f is None:
            c = z3.Real(name)
            return SymArr((), lambda idx: c)
        ATOMS[name] = (f, tuple(shape), fact)
        r = SymArr(shape, lambda idx, f=f: f(*idx))
        r.label = name
        return r

    @property
    def ndim(self):
        return len(self.shape)

    def __len__(self):
        d = self.shape[0]
        if isinstance(d, Dim):
            raise OutsideSubset("len() of a symbolic dimension")
        return d

    def __iter__(self):
        d = self.shape[0] if self.shape else None
        if d is None or isinstance(d, Dim):
            raise OutsideSubset("python-level iteration over a symbolic dimension")
        return iter([self[k] for k in range(d)])

    def __bool__(self):
        if self.shape == () and self.kind == "bool":
            return truth(self.elem(()))
        if self.shape == ():
            return truth(self.elem(()) != 0)
        raise OutsideSubset("truth value of a symbolic array of shape %s" % (self.shape,))

    def copy(self):
        return SymArr(self.shape, self.elem, self.kind)

    @property
    def T(self):
        if self.ndim < 2:
            return self
        n = self.ndim
        return SymArr(tuple(reversed(self.shape)), lambda idx, e=self.elem: e(tuple(reversed(idx))), self.kind)

    def flatten(self):
        raise OutsideSubset("flatten")

    # -- ndarray methods that are the numpy functions of the same name (numpy documents them as equivalent)
    def sum(self, axis=None, keepdims=False, **kw):
        if kw:
            raise OutsideSubset("ndarray.sum options %r" % (kw,))
        return SymNumpy().sum(self, axis=axis, keepdims=keepdims)

    def mean(self, axis=None, **kw):
        if kw:
            raise OutsideSubset("ndarray.mean options %r" % (kw,))
        return SymNumpy().average(self, axis=axis)

    def prod(self, axis=None, **kw):
        if kw:
            raise OutsideSubset("ndarray.prod options %r" % (kw,))
        return SymNumpy().prod(self, axis=axis)

    def transpose(self, *axes):
        if axes and axes != (None,):
            ax = axes[0] if len(axes) == 1 and isinstance(axes[0], (tuple, list)) else axes
            ax = tuple(a % self.ndim for a in ax)
            if sorted(ax) != list(range(self.ndim)):
                raise ShapeObligation("axes don't match array")
            return SymArr(tuple(self.shape[a] for a in ax), lambda idx, e=self.elem, ax=ax: e(tuple(idx[ax.index(k)] for k in range(len(ax)))), self.kind)
        return self.T

    def astype(self, dtype, **kw):
        if dtype in (float, "float", "float64", "f8") or getattr(dtype, "__name__", "") in ("float64", "float"):
            return self.copy()
        raise OutsideSubset("astype(%r)" % (dtype,))

    def conj(self):
        return self

    conjugate = conj

    # -- arithmetic
    def _bin(self, o, f, kind="real"):
        if isinstance(o, (list, tuple)):
            raise OutsideSubset("array op with python sequence")
        if is_arr(o):
            shp = bshape(self.shape, o.shape)
            a, b = self, o
            ea, eb, sa, sb = a.elem, b.elem, a.shape, b.shape      # element functions captured now: later writes do not show
            return SymArr(shp, lambda idx: f(ea(_pull(sa, idx)), eb(_pull(sb, idx))), kind)
        if hasattr(o, "shape") and getattr(o, "shape") != ():
            return self._bin(from_numpy(o), f, kind)
        t = term(o)
        ea = self.elem
        return SymArr(self.shape, lambda idx, t=t: f(ea(idx), t), kind)

    def __add__(self, o): return self._bin(o, lambda a, b: a + b)
    def __radd__(self, o): return self._bin(o, lambda a, b: b + a)
    def __sub__(self, o): return self._bin(o, lambda a, b: a - b)
    def __rsub__(self, o): return self._bin(o, lambda a, b: b - a)
    def __mul__(self, o): return self._bin(o, lambda a, b: a * b)
    def __rmul__(self, o): return self._bin(o, lambda a, b: b * a)
    def __truediv__(self, o): return self._bin(o, lambda a, b: a / b)
    def __rtruediv__(self, o): return self._bin(o, lambda a, b: b / a)
    def __neg__(self): return SymArr(self.shape, lambda idx, e=self.elem: -e(idx))
    def __pos__(self): return self
    def __pow__(self, n): return SymArr(self.shape, lambda idx, e=self.elem: zpow(e(idx), n))

    def __eq__(self, o): return self._bin(o, lambda a, b: a == b, "bool")
    def __ne__(self, o): return self._bin(o, lambda a, b: a != b, "bool")
    def __lt__(self, o): return self._bin(o, lambda a, b: a < b, "bool")
    def __le__(self, o): return self._bin(o, lambda a, b: a <= b, "bool")
    def __gt__(self, o): return self._bin(o, lambda a, b: a > b, "bool")
    def __ge__(self, o): return self._bin(o, lambda a, b: a >= b, "bool")
    __hash__ = None

    def __matmul__(self, o):
        return matmul(self, o)

    def __rmatmul__(self, o):
        return matmul(o, self)

    # -- indexing
    def _norm_key(self, key):
        if not isinstance(key, tuple):
            key = (key,)
        if any(k is Ellipsis for k in key):
            n_real = sum(1 for k in key if k is not None and k is not Ellipsis)
            pos = [i for i, k in enumerate(key) if k is Ellipsis]
            if len(pos) != 1:
                raise OutsideSubset("more than one Ellipsis")
            key = key[:pos[0]] + (slice(None),) * (self.ndim - n_real) + key[pos[0] + 1:]
        n_real = sum(1 for k in key if k is not None)
        if n_real > self.ndim:
            raise ShapeObligation("too many indices for array of shape %s" % (self.shape,))
        key = key + (slice(None),) * (self.ndim - n_real)
        return key

    def __getitem__(self, key):
        key = self._norm_key(key)
        out_shape = []
        plan = []   # per source axis: ('out', position in out idx, offset) | ('fix', term)
        src = 0
        for k in key:
            if k is None:
                out_shape.append(1)
                continue
            d = self.shape[src]
            if isinstance(k, slice):
                lo, hi = self._slice(k, d)
                if lo is None:
                    plan.append(("out", len(out_shape), 0))
                    out_shape.append(d)
                else:
                    plan.append(("out", len(out_shape), lo))
                    out_shape.append(hi - lo)
            elif isinstance(k, (int,)) or (hasattr(k, "item") and getattr(k, "shape", None) == ()):
                k = int(k)
                if isinstance(d, Dim):
                    if k < 0:
                        plan.append(("fix", d.n + k))
                    else:
                        plan.append(("fix", z3.IntVal(k)))      # requires n > k: recorded as a size obligation
                        SIZE_OBLIGATIONS.append((d, k + 1))
                else:
                    if not -d <= k < d:
                        raise ShapeObligation("index %d out of bounds for axis of size %d" % (k, d))
                    plan.append(("fix", z3.IntVal(k % d)))
            elif isinstance(k, z3.ExprRef):
                plan.append(("fix", k))
            elif isinstance(k, (list, tuple)) and all(isinstance(t, int) for t in k) and not isinstance(d, Dim):
                sel = [t % d for t in k]
                plan.append(("sel", len(out_shape), sel))
                out_shape.append(len(sel))
            else:
                raise OutsideSubset("index %r" % (k,))
            src += 1

        def elem(idx, plan=plan, e=self.elem):
            src_idx = []
            for p in plan:
                if p[0] == "out":
                    src_idx.append(idx[p[1]] + p[2] if p[2] else idx[p[1]])
                elif p[0] == "sel":
                    i = idx[p[1]]
                    if z3.is_int_value(i):
                        src_idx.append(z3.IntVal(p[2][i.as_long()]))
                    else:
                        t = z3.IntVal(p[2][-1])
                        for pos in range(len(p[2]) - 2, -1, -1):
                            t = z3.If(i == pos, z3.IntVal(p[2][pos]), t)
                        src_idx.append(t)
                else:
                    src_idx.append(p[1])
            return e(tuple(src_idx))
        res = SymArr(tuple(out_shape), elem, self.kind)
        if not out_shape and False:
            return Sc(res.elem(()))
        return res

    @staticmethod
    def _slice(k, d):
        """-> (None, None) for the full axis, else concrete (lo, hi)"""
        if k.step not in (None, 1):
            raise OutsideSubset("strided slice")
        if k.start is None and k.stop is None:
            return None, None
        if isinstance(d, Dim):
            raise OutsideSubset("partial slice of a symbolic dimension (read)")
        lo, hi, _ = k.indices(d)
        return lo, max(lo, hi)

    def __setitem__(self, key, value):
        # fancy row assignment through numpy.where: ret[(WhereIdx,), :] = v  /  ret[numpy.where(c)] = v
        if isinstance(key, tuple) and key and isinstance(key[0], tuple) and len(key[0]) == 1 and isinstance(key[0][0], WhereIdx):
            key = (key[0][0],) + key[1:]
        if isinstance(key, WhereIdx):
            key = (key,)
        if isinstance(key, tuple) and len(key) == 1 and isinstance(key[0], tuple) and all(isinstance(k, WhereIdx) for k in key[0]):
            key = key[0]
        key = key if isinstance(key, tuple) else (key,)
        # boolean mask on one axis: ret[mask, :] = v  is  ret[numpy.where(mask), :] = v
        key = tuple(WhereIdx(k) if (isinstance(k, SymArr) and k.kind == "bool" and k.ndim == 1) else k for k in key)
        key = self._norm_key(key)
        if any(k is None for k in key):
            raise OutsideSubset("newaxis in assignment")
        conds = []      # functions idx -> z3 Bool
        sub_shape = []
        sub_axes = []   # (axis, offset)
        for ax, k in enumerate(key):
            d = self.shape[ax]
            if isinstance(k, WhereIdx):
                if not same_dim(k.cond.shape[0], d) or k.cond.ndim != 1:
                    raise ShapeObligation("boolean index of shape %s on axis %d of %s" % (k.cond.shape, ax, self.shape))
                conds.append(lambda idx, ax=ax, ce=k.cond.elem: ce((idx[ax],)))
                # a fancy index selects a sub-array whose extent is data dependent; value must be a scalar
                sub_shape.append(None)
            elif isinstance(k, slice):
                if k.step not in (None, 1):
                    raise OutsideSubset("strided slice")
                if k.start is None and k.stop is None:
                    sub_shape.append(d)
                    sub_axes.append((ax, 0))
                else:
                    if isinstance(d, Dim):
                        lo = k.start or 0
                        hi = k.stop
                        if lo < 0 or hi is None or hi < 0:
                            raise OutsideSubset("negative slice bound on a symbolic dimension")
                        SIZE_OBLIGATIONS.append((d, hi))
                    else:
                        lo, hi, _ = k.indices(d)
                    conds.append(lambda idx, ax=ax, lo=lo, hi=hi: z3.And(idx[ax] >= lo, idx[ax] < hi))
                    sub_shape.append(hi - lo)
                    sub_axes.append((ax, lo))
            elif isinstance(k, int):
                if isinstance(d, Dim):
                    if k < 0:
                        raise OutsideSubset("negative index on a symbolic dimension")
                    SIZE_OBLIGATIONS.append((d, k + 1))
                    kk = z3.IntVal(k)
                else:
                    if not -d <= k < d:
                        raise ShapeObligation("index out of bounds")
                    kk = z3.IntVal(k % d)
                conds.append(lambda idx, ax=ax, kk=kk: idx[ax] == kk)
            elif isinstance(k, z3.ExprRef):
                conds.append(lambda idx, ax=ax, kk=k: idx[ax] == kk)
            else:
                raise OutsideSubset("assignment index %r" % (k,))
        old = self.elem
        self._mutating("item assignment")
        if is_arr(value) and value.ndim > 0:
            if any(s is None for s in sub_shape):
                raise OutsideSubset("array value with boolean index")
            tgt = tuple(sub_shape)
            bshape(tgt, value.shape)
            if len(value.shape) > len(tgt):
                raise ShapeObligation("could not broadcast input array from shape %s into shape %s" % (value.shape, tgt))
            for a, b in zip(reversed(tgt), reversed(value.shape)):
                if not same_dim(a, b) and not (not isinstance(b, Dim) and b == 1):
                    raise ShapeObligation("could not broadcast input array from shape %s into shape %s" % (value.shape, tgt))

            def newval(idx, ve=value.elem, vs=value.shape, sub_axes=sub_axes):
                sub_idx = tuple(idx[ax] - off if off else idx[ax] for ax, off in sub_axes)
                return ve(_pull(vs, sub_idx))
        else:
            t = value.elem(()) if is_arr(value) else term(value)

            def newval(idx, t=t):
                return t

        def elem(idx, old=old, conds=conds, newval=newval):
            c = z3.And(*[f(idx) for f in conds]) if conds else z3.BoolVal(True)
            if z3.is_true(z3.simplify(c)):
                return newval(idx)
            return z3.If(c, newval(idx), old(idx))
        self.elem = elem

    def __repr__(self):
        return "SymArr%s" % (self.shape,)


ATOMS = {}
SIZE_OBLIGATIONS = []


class WhereIdx:
    def __init__(self, cond):
        self.cond = cond


def from_numpy(a):
    import numpy
    a = numpy.asarray(a)
    if a.dtype == object:
        flat = [term(x) for x in a.ravel().tolist()]
    else:
        flat = [rat(x) for x in a.ravel().tolist()]
    shape = a.shape
    strides = []
    s = 1
    for d in reversed(shape):
        strides.append(s)
        s *= d
    strides = list(reversed(strides))

    def elem(idx):
        if all(z3.is_int_value(z3.simplify(i)) for i in idx):
            pos = sum(z3.simplify(i).as_long() * st for i, st in zip(idx, strides))
            return flat[pos]
        # symbolic index into a concrete table: ite chain
        res = flat[-1]
        for pos in range(len(flat) - 2, -1, -1):
            multi = []
            r = pos
            for st in strides:
                multi.append(r // st)
                r %= st
            res = z3.If(z3.And(*[i == m for i, m in zip(idx, multi)]), flat[pos], res)
        return res
    return SymArr(shape, elem)


def matmul(a, b):
    if not is_arr(a):
        a = from_numpy(a)
    if not is_arr(b):
        b = from_numpy(b)
    if a.ndim < 2 or b.ndim < 2:
        raise OutsideSubset("matmul with vectors")
    n = a.shape[-1]
    if isinstance(n, Dim) or not same_dim(n, b.shape[-2]):
        raise ShapeObligation("matmul: inner dimensions %s / %s" % (a.shape, b.shape))
    lead = bshape(a.shape[:-2], b.shape[:-2])
    out = lead + (a.shape[-2], b.shape[-1])

    def elem(idx, ae=a.elem, be=b.elem, sa=a.shape, sb=b.shape, n=n):
        li = idx[:-2]
        r, c = idx[-2], idx[-1]
        tot = None
        for k in range(n):
            x = ae(_pull(sa[:-2], li) + (r, z3.IntVal(k)))
            y = be(_pull(sb[:-2], li) + (z3.IntVal(k), c))
            tot = x * y if tot is None else tot + x * y
        return tot
    return SymArr(out, elem)


# ------------------------------------------------------------------------------------------ numpy stub
class SymNumpy:
    """contract stub for exactly the numpy functions the verified bodies use (assumption A-NUMPY); its array
    semantics are validated against real numpy on small object arrays in every run (crosscheck_numpy)."""
    newaxis = None
    ndarray = SymArr
    float64 = float
    pi = math.pi

    def __init__(self, real=None, extra=None, linalg=None):
        import numpy
        self.real = real or numpy
        self.linalg = _Linalg(self, linalg or {})
        self.extra = dict(extra or {})     # contract stubs supplied by a property module (e.g. allclose as a recorder)

    def exp(self, x, out=None):
        if is_arr(x):
            return self._out(SymArr(x.shape, lambda idx, e=x.elem: mkexp(e(idx))), out, "exp")
        return Sc(mkexp(term(x)))

    def expm1(self, x, out=None):
        return self._out(self.exp(x) - 1, out, "expm1")

    def sqrt(self, x):
        if is_arr(x):
            return SymArr(x.shape, lambda idx, e=x.elem: SQRT(e(idx)))
        return Sc(SQRT(term(x)))

    def log(self, x):
        if is_arr(x):
            return SymArr(x.shape, lambda idx, e=x.elem: LOG(e(idx)))
        return Sc(LOG(term(x)))

    def conj(self, x):
        return x

    def copy(self, x):
        return x.copy() if is_arr(x) else x

    def array(self, x, dtype=None):
        if is_arr(x):
            return x.copy()
        if isinstance(x, (list, tuple)):
            return self.stack_list(x)
        return Sc(term(x))

    asarray = array

    def stack_list(self, xs):
        xs = list(xs)
        if not xs:
            raise OutsideSubset("empty list to array")
        items = [x if is_arr(x) else (self.stack_list(x) if isinstance(x, (list, tuple)) else SymArr((), lambda idx, t=term(x): t)) for x in xs]
        shp = items[0].shape
        for it in items[1:]:
            if len(it.shape) != len(shp) or not all(same_dim(a, b) for a, b in zip(it.shape, shp)):
                raise ShapeObligation("ragged list of arrays: %s vs %s" % (it.shape, shp))

        def elem(idx, es=[it.elem for it in items]):
            i0 = z3.simplify(idx[0])
            if z3.is_int_value(i0):
                return es[i0.as_long()](idx[1:])
            r = es[-1](idx[1:])
            for k in range(len(es) - 2, -1, -1):
                r = z3.If(idx[0] == k, es[k](idx[1:]), r)
            return r
        return SymArr((len(items),) + tuple(shp), elem)

    def zeros(self, shape, dtype=None):
        shape = (shape,) if not isinstance(shape, tuple) else shape
        return SymArr(shape, lambda idx: z3.RealVal(0))

    def ones(self, shape, dtype=None):
        shape = (shape,) if not isinstance(shape, tuple) else shape
        return SymArr(shape, lambda idx: z3.RealVal(1))

    def prod(self, x, axis=None):
        if isinstance(x, (list, tuple)):
            x = self.stack_list(x)
        if axis is None or isinstance(x.shape[axis], Dim):
            raise OutsideSubset("prod over a symbolic axis")
        axis %= x.ndim
        n = x.shape[axis]
        out = x.shape[:axis] + x.shape[axis + 1:]

        def elem(idx, xe=x.elem, n=n, axis=axis):
            r = None
            for k in range(n):
                e = xe(idx[:axis] + (z3.IntVal(k),) + idx[axis:])
                r = e if r is None else r * e
            return r
        return SymArr(out, elem)

    def sum(self, x, axis=None, keepdims=False):
        if isinstance(x, (list, tuple)):
            x = self.stack_list(x)
        if axis is None:
            raise OutsideSubset("sum over all axes")
        axis %= x.ndim
        r = make_sum(x, axis)
        if keepdims:
            key = tuple(slice(None) if k != axis else None for k in range(x.ndim))
            r = r[key]
        return r

    def average(self, x, axis=None, weights=None):
        if axis is None:
            raise OutsideSubset("average over all axes")
        if axis < -x.ndim or axis >= x.ndim:
            raise ShapeObligation("axis %d is out of bounds for array of dimension %d" % (axis, x.ndim))
        axis %= x.ndim
        d = x.shape[axis]
        if weights is None:
            return make_sum(x, axis) / Sc(d.nr if isinstance(d, Dim) else z3.RealVal(d))
        w = weights if is_arr(weights) else from_numpy(weights)
        if w.ndim != 1 or not same_dim(w.shape[0], d):
            raise ShapeObligation("Length of weights not compatible with specified axis (weights %s, axis %d of %s)" % (w.shape, axis, x.shape))
        key = tuple(slice(None) if k == axis else None for k in range(x.ndim))
        wb = w[key] if x.ndim > 1 else w
        num = make_sum(x * wb, axis)
        den = make_sum(w, 0)
        return num / den

    def mean(self, x, axis=None, **kw):
        if kw:
            raise OutsideSubset("numpy.mean options %r" % (kw,))
        return self.average(x, axis=axis)

    @staticmethod
    def _out(r, out, how):
        """numpy's out=: the result is written into an existing array (frame bookkeeping as for any in-place update) and that array is returned"""
        if out is None:
            return r
        if isinstance(out, tuple) and len(out) == 1:
            out = out[0]
        if not is_arr(out) or not is_arr(r) or not same_shape(r.shape, out.shape):
            raise ShapeObligation("%s(..., out=...): result of shape %s cannot be written into %s" % (how, getattr(r, "shape", "scalar"), getattr(out, "shape", out)))
        out._mutating("%s(..., out=)" % how)
        out.elem = r.elem
        return out

    def square(self, x, out=None):
        return self._out(x * x, out, "square")

    def multiply(self, a, b, out=None): return self._out(a * b, out, "multiply")
    def add(self, a, b, out=None): return self._out(a + b, out, "add")
    def subtract(self, a, b, out=None): return self._out(a - b, out, "subtract")
    def divide(self, a, b, out=None): return self._out(a / b, out, "divide")
    true_divide = divide
    def negative(self, a, out=None): return self._out(-a, out, "negative")
    def power(self, a, b, out=None): return self._out(a ** b, out, "power")
    def reciprocal(self, a, out=None): return self._out(1 / a, out, "reciprocal")

    def transpose(self, x, axes=None):
        return x.transpose(axes) if axes is not None else x.T

    def zeros_like(self, x, dtype=None):
        return SymArr(x.shape, lambda idx: z3.RealVal(0))

    def ones_like(self, x, dtype=None):
        return SymArr(x.shape, lambda idx: z3.RealVal(1))

    def where(self, cond, *rest):
        if rest:
            a, b = rest
            c = cond if is_arr(cond) else None
            if c is None:
                raise OutsideSubset("where with scalar condition")
            A = a if is_arr(a) else SymArr((), lambda idx, t=term(a): t)
            B = b if is_arr(b) else SymArr((), lambda idx, t=term(b): t)
            shp = bshape(bshape(c.shape, A.shape), B.shape)
            ce, Ae, Be = c.elem, A.elem, B.elem
            return SymArr(shp, lambda idx: z3.If(ce(_pull(c.shape, idx)), Ae(_pull(A.shape, idx)), Be(_pull(B.shape, idx))))
        if not is_arr(cond) or cond.kind != "bool":
            raise OutsideSubset("where(non-boolean)")
        if cond.ndim != 1:
            raise OutsideSubset("where on rank %d" % cond.ndim)
        return (WhereIdx(cond),)

    def diagonal(self, x, axis1=0, axis2=1):
        a1, a2 = axis1 % x.ndim, axis2 % x.ndim
        if sorted((a1, a2)) != [x.ndim - 2, x.ndim - 1]:
            raise OutsideSubset("diagonal of non-trailing axes")
        if not same_dim(x.shape[-1], x.shape[-2]):
            raise ShapeObligation("diagonal of non-square")
        return SymArr(x.shape[:-1], lambda idx, e=x.elem: e(idx + (idx[-1],)))

    def einsum(self, spec, x):
        if spec.replace(" ", "") != "...ii->...i":
            raise OutsideSubset("einsum %r" % spec)
        return DiagView(x)

    def errstate(self, **kw):
        """floating-point warning control has no effect on values"""
        import contextlib
        return contextlib.nullcontext()

    def seterr(self, **kw):
        return {}

    def __getattr__(self, name):
        extra = self.__dict__.get("extra", {})
        if name in extra:
            return extra[name]
        raise OutsideSubset("numpy.%s is not modelled by the stub" % name)


class _Linalg:
    def __init__(self, np_, funcs):
        self.np = np_
        self.funcs = funcs

    def __getattr__(self, name):
        funcs = self.__dict__.get("funcs", {})
        if name in funcs:
            return funcs[name]
        raise OutsideSubset("numpy.linalg.%s is not modelled by the stub" % name)


class DiagView:
    """writable view of the trailing diagonal (numpy.einsum('...ii->...i', x))"""

    def __init__(self, base):
        self.base = base

    def __setitem__(self, key, value):
        if key is not Ellipsis:
            raise OutsideSubset("diag view assignment with key %r" % (key,))
        b = self.base
        b._mutating("diagonal-view assignment")
        old = b.elem
        v = value if is_arr(value) else SymArr((), lambda idx, t=term(value): t)
        tgt = b.shape[:-1]
        bshape(tgt, v.shape)
        b.elem = lambda idx, old=old, ve=v.elem, vs=v.shape: z3.If(idx[-1] == idx[-2], ve(_pull(vs, idx[:-1])), old(idx))


# ------------------------------------------------------------------------------------------ proving with sums
def subterms(t, pred, acc=None, seen=None):
    acc = [] if acc is None else acc
    seen = set() if seen is None else seen
    stack = [t]
    while stack:
        x = stack.pop()
        i = x.get_id()
        if i in seen:
            continue
        seen.add(i)
        if pred(x):
            acc.append(x)
        stack.extend(x.children())
    return acc


def contains(t, v):
    vid = v.get_id()
    return bool(subterms(t, lambda x: x.get_id() == vid))


def is_sum_app(x):
    return z3.is_app(x) and x.decl().name() in SUMS and x.num_args() == len(SUMS[x.decl().name()].params)


def factors(t):
    """multiplicative factors [(term, +1|-1)] of a real term"""
    if z3.is_app(t):
        k = t.decl().kind()
        if k == z3.Z3_OP_MUL:
            out = []
            for c in t.children():
                out += factors(c)
            return out
        if k == z3.Z3_OP_DIV:
            n, d = t.children()
            return factors(n) + [(f, -p) for f, p in factors(d)]
        if k == z3.Z3_OP_UMINUS:
            return [(z3.RealVal(-1), 1)] + factors(t.children()[0])
        if k == z3.Z3_OP_TO_REAL:
            return [(t, 1)]
        if k == z3.Z3_OP_ITE and t.sort() == RS:
            # masks: ite(c, 0, x) = ite(c, 0, 1) * x  and  ite(c, x, 0) = ite(c, 1, 0) * x
            c, x, y = t.children()
            zero = lambda u: z3.is_rational_value(u) and u.numerator_as_long() == 0
            if zero(x) and not zero(y):
                return [(z3.If(c, z3.RealVal(0), z3.RealVal(1)), 1)] + factors(y)
            if zero(y) and not zero(x):
                return [(z3.If(c, z3.RealVal(1), z3.RealVal(0)), 1)] + factors(x)
    return [(t, 1)]


def is_mask(t):
    if not (z3.is_app(t) and t.decl().kind() == z3.Z3_OP_ITE and t.sort() == RS):
        return False
    c, x, y = t.children()
    vals = []
    for u in (x, y):
        if not z3.is_rational_value(u):
            return False
        vals.append(u.numerator_as_long() if u.denominator_as_long() == 1 else None)
    return sorted(vals) == [0, 1]


def product(fs):
    """product of factors [(term, +-1)].  0/1 masks are kept as separate multiplicative factors in front of the
    fraction: mask * (N / D)  -- regrouping them into the numerator would change the value where D = 0
    (z3: 0 * (N/0) = 0 but (0*N)/0 is an arbitrary number)"""
    masks = [f for f, p in fs if p > 0 and is_mask(f)]
    num = [f for f, p in fs if p > 0 and not is_mask(f)]
    den = [f for f, p in fs if p < 0]
    n = None
    for f in num:
        n = f if n is None else n * f
    if n is None:
        n = z3.RealVal(1)
    if den:
        d = None
        for f in den:
            d = f if d is None else d * f
        n = n / d
    for m in masks:
        n = m * n
    return n


class SumNormalizer:
    """rewrites sum applications into  coefficient * canonical-sum-atom  and proves equalities (module docstring)"""

    def __init__(self, assumptions=(), tier="quick"):
        self.atoms = []   # dicts: const, dim, j, body
        self.base = list(assumptions)
        self.tier = tier
        self.log = []

    def canon(self, t, depth=0):
        """replace every (outermost-first, recursively) sum application in t"""
        apps = [a for a in subterms(t, is_sum_app)]
        if not apps:
            return t
        # outermost applications only: those not nested inside another application's arguments are all apps found,
        # nested sums live in bodies (not in args), so every app found here is outermost.
        sub = []
        for a in apps:
            sd = SUMS[a.decl().name()]
            # bound index renamed to a canonical variable per (dimension, nesting depth) so that equal sums
            # written twice are recognised as the same atom
            jc = z3.Int("J!%s_%d" % (sd.dim.name, depth))
            body = z3.substitute(sd.body, *(list(zip(sd.params, a.children())) + [(sd.j, jc)]))
            body = self.canon(body, depth + 1)
            fs = factors(body)
            indep = [(f, p) for f, p in fs if not contains(f, jc)]
            dep = [(f, p) for f, p in fs if contains(f, jc)]
            c, d = product(indep), product(dep)
            atom = self.intern(sd.dim, jc, d)
            sub.append((a, c * atom))
        return z3.substitute(t, *sub)

    def intern(self, dim, j, body):
        for a in self.atoms:
            if a["dim"] is dim:
                b2 = z3.substitute(a["body"], (a["j"], j))
                if b2.eq(body):
                    return a["const"]
        for a in self.atoms:
            if a["dim"] is dim:
                b2 = z3.substitute(a["body"], (a["j"], j))
                r = self.decide(b2 == body, self.facts(z3.And(b2 == body)) + [j >= 0, j < dim.n], "merge-sums", timeout_ms=2000, fallback=False)
                if r.status == core.PROVED:
                    return a["const"]
        # the canonical atom is a function of the free index variables of its body (so that an enclosing sum
        # sees the dependence on its own bound index)
        jid = j.get_id()
        free = subterms(body, lambda x: z3.is_const(x) and z3.is_int(x) and x.decl().kind() == z3.Z3_OP_UNINTERPRETED
                        and x.get_id() != jid)
        free = sorted(free, key=lambda x: x.decl().name())
        if free:
            f = z3.Function("S!%d_%s" % (next(_ids), dim.name), *([IS] * len(free) + [RS]))
            c = f(*free)
        else:
            c = z3.Real("S!%d_%s" % (next(_ids), dim.name))
        rec = {"const": c, "dim": dim, "j": j, "body": body, "facts": [], "free": free, "name": c.decl().name()}
        # lemma (positivity of finite sums, A-SUMS): a sum over a non-empty range of positive terms is positive
        rp = smt.prove(body > 0, self.base + instantiate_facts([body > 0] + self.base) + [j >= 0, j < dim.n] + self.atom_facts(body),
                       tier="quick", timeout_ms=2000, fallback=False)
        if rp.status == core.PROVED:
            rec["facts"].append(c > 0)
        self.atoms.append(rec)
        return c

    def atom_facts(self, goal):
        out = []
        byname = {a["name"]: a for a in self.atoms if a["facts"]}
        if not byname:
            return out
        for o in subterms(goal, lambda x: z3.is_app(x) and x.decl().name() in byname):
            a = byname[o.decl().name()]
            for f in a["facts"]:
                out.append(z3.substitute(f, *zip(a["free"], o.children())) if a["free"] else f)
        return out

    def facts(self, goal):
        return self.base + [d.n >= 1 for d in DIMS] + [d.nr >= 1 for d in DIMS] + instantiate_facts([goal] + self.base) + self.atom_facts(goal)

    def occurrences(self, t):
        byname = {a["name"]: a for a in self.atoms}
        occ = subterms(t, lambda x: z3.is_app(x) and x.decl().name() in byname
                       and x.num_args() == len(byname[x.decl().name()]["free"]))
        return [(byname[o.decl().name()], o) for o in occ]

    def decide(self, goal, hyp, name, timeout_ms=None, fallback=True):
        """pure arithmetic query: applications of uninterpreted functions (array atoms, Exp, Sqrt, opaque sums) are
        generalised to fresh real constants after the facts have been instantiated (sound for validity)"""
        from . import ratid
        fs = [goal] + list(hyp)
        fs2 = abstract_apps(fs)
        quick = smt.prove(fs2[0], fs2[1:], tier="quick", name=name, timeout_ms=min(timeout_ms or 2000, 2000), fallback=False)
        if quick.status in (core.PROVED, core.REFUTED):
            return quick
        r = ratid.prove_identity(fs2[0], fs2[1:], tier=self.tier, name=name, timeout_ms=timeout_ms)
        if r.status in (core.PROVED, core.REFUTED) or not fallback:
            r.time_s += quick.time_s
            return r
        return smt.prove(fs2[0], fs2[1:], tier=self.tier, name=name, timeout_ms=timeout_ms, fallback=fallback)

    def prove_eq(self, lhs, rhs, extra=(), depth=0, name=""):
        """assumptions => lhs == rhs, where both may contain sums. Returns core.Result.
        proved   : by z3/cvc5, possibly after the sum rules
        refuted  : the identity fails for some real values of the (canonical) sums, or the integrands differ
        unknown  : anything else"""
        L, R = self.canon(lhs), self.canon(rhs)
        goal = L == R
        hyp = list(extra) + self.facts(z3.And(goal, *extra) if extra else goal)
        used = self.occurrences(L - R)
        if not used or depth > 4:
            return self.decide(goal, hyp, name)
        # first attempt with the sums opaque: cheap, and only decisive when it succeeds
        first = self.decide(goal, hyp, name + ":opaque", timeout_ms=3000, fallback=False)
        if first.status == core.PROVED:
            return first
        # linear-combination rule: D = L - R is affine in canonical sums of ONE dimension with index-free
        # coefficients  =>  D = c0 + SUM_j ( sum_k c_k body_k(j) ); then c0 = 0 and the combined integrand = 0
        D = L - R
        dims = []
        for a, o in used:
            if a["dim"] not in dims:
                dims.append(a["dim"])
        inner_unknown = None
        for dim in dims:
            group = []
            for a, o in used:
                if a["dim"] is not dim:
                    continue
                d0 = z3.substitute(D, (o, z3.RealVal(0)))
                d1 = z3.substitute(D, (o, z3.RealVal(1)))
                ra = self.decide(D == d0 + o * (d1 - d0), hyp, name + ":affine", timeout_ms=3000, fallback=False)
                if ra.status == core.PROVED:
                    group.append((a, o))
            if not group:
                continue
            zero = [(o, z3.RealVal(0)) for a, o in group]
            c0 = z3.simplify(z3.substitute(D, *zero))
            coefs = []
            for a, o in group:
                one = [(o2, z3.RealVal(1 if o2.eq(o) else 0)) for a2, o2 in group]
                coefs.append(z3.simplify(z3.substitute(D, *one) - c0))
            lin = c0
            for (a, o), c in zip(group, coefs):
                lin = lin + c * o
            rl = self.decide(D == lin, hyp, name + ":linear", timeout_ms=5000, fallback=False)
            if rl.status != core.PROVED:
                continue
            j = z3.Int("j!%d_%s" % (next(_ids), dim.name))
            comb = None
            for (a, o), c in zip(group, coefs):
                inst = z3.substitute(a["body"], *(list(zip(a["free"], o.children())) + [(a["j"], j)])) if a["free"] \
                    else z3.substitute(a["body"], (a["j"], j))
                t = c * inst
                comb = t if comb is None else comb + t
            r0 = self.prove_eq(c0, z3.RealVal(0), extra=list(extra), depth=depth + 1, name=name + ":c0")
            if r0.status == core.REFUTED:
                r0.detail = "constant part of the affine form in the sums over %s does not vanish: %s" % (dim.name, r0.detail)
                return r0
            if r0.status != core.PROVED:
                inner_unknown = inner_unknown or r0
                continue
            rj = self.prove_eq(comb, z3.RealVal(0), extra=list(extra) + [j >= 0, j < dim.n], depth=depth + 1, name=name + ":body")
            rj.time_s += first.time_s + rl.time_s + r0.time_s
            if rj.status == core.PROVED:
                rj.detail = "sum rules (linearity+congruence over %s) then %s" % (dim.name, rj.detail)
                return rj
            if rj.status == core.REFUTED:
                rj.detail = "integrands differ under the sum over %s: %s" % (dim.name, rj.detail)
                return rj
            inner_unknown = inner_unknown or rj
        if inner_unknown is not None:
            inner_unknown.status = core.UNKNOWN
            inner_unknown.detail = "sum rules applied, inner obligation undecided: " + inner_unknown.detail
            return inner_unknown
        if first.status == core.REFUTED:
            first.detail = "fails for some real values of the sums (sums opaque): " + first.detail
        return first


_abs_ids = itertools.count()


def abstract_apps(formulas):
    """replace every application f(args) of an uninterpreted function of positive arity and Real range by a fresh
    real constant (same application -> same constant)"""
    table = {}
    pairs = []
    for f in formulas:
        for x in subterms(f, lambda x: z3.is_app(x) and x.num_args() > 0 and x.decl().kind() == z3.Z3_OP_UNINTERPRETED
                          and x.sort() == RS):
            if x.get_id() not in table:
                table[x.get_id()] = (x, None)
    # innermost applications last so that outer ones are substituted as whole terms first
    items = sorted(table.values(), key=lambda p: -len(str(p[0])) if False else -depth_of(p[0]))
    for x, _ in items:
        c = z3.Real("a!%d_%s" % (next(_abs_ids), x.decl().name()))
        pairs.append((x, c))
    if not pairs:
        return list(formulas)
    cong = []
    for (x, c), (y, d) in itertools.combinations(pairs, 2):
        if x.decl().eq(y.decl()):
            cong.append((x, c, y, d))
    out = []
    for f in formulas:
        g = f
        for x, c in pairs:          # sequential: an outer application (deeper term) is replaced before its arguments
            g = z3.substitute(g, (x, c))
        out.append(g)
    # Ackermann congruence: equal arguments => equal values (keeps refutations honest)
    for x, c, y, d in cong[:60]:
        eqs = []
        for a, b in zip(x.children(), y.children()):
            e = a == b
            for x2, c2 in pairs:
                e = z3.substitute(e, (x2, c2))
            eqs.append(e)
        out.append(z3.Implies(z3.And(*eqs), c == d))
    return out


def depth_of(t):
    d = 0
    stack = [(t, 1)]
    seen = set()
    while stack:
        x, k = stack.pop()
        d = max(d, k)
        if x.get_id() in seen:
            continue
        seen.add(x.get_id())
        for c in x.children():
            stack.append((c, k + 1))
    return d


def instantiate_facts(goals):
    """element-wise assumptions of array atoms and axioms of Exp/Sqrt, instantiated for every occurrence"""
    out = []
    seen = set()
    todo = list(goals)
    apps = []
    for g in todo:
        subterms(g, lambda x: z3.is_app(x) and (x.decl().name() in ATOMS or x.decl().name() in ("Exp", "Sqrt", "Log")), apps)
    exps = []
    for a in apps:
        if a.get_id() in seen:
            continue
        seen.add(a.get_id())
        n = a.decl().name()
        if n in ATOMS:
            f, shape, fact = ATOMS[n]
            if fact is not None:
                out.append(fact(tuple(a.children()), a))
        elif n == "Exp":
            x = a.children()[0]
            out += [a > 0, z3.Implies(x > 0, a > 1), z3.Implies(x < 0, a < 1)]
            exps.append((x, a))
        elif n == "Sqrt":
            x = a.children()[0]
            out += [z3.Implies(x >= 0, z3.And(a >= 0, a * a == x))]
    for (x, a), (y, b) in itertools.combinations(exps, 2):
        s = z3.simplify(x + y, som=True)
        if z3.is_rational_value(s) and s.numerator_as_long() == 0:
            out.append(a * b == 1)
        else:
            from . import ratid
            n, ds = ratid._frac_multiset(x + y)
            ns = z3.simplify(n, som=True)
            if z3.is_rational_value(ns) and ns.numerator_as_long() == 0:
                out.append(a * b == 1)
    # facts may mention further atoms (e.g. inside an Exp argument): one more round is enough for our uses
    return out


def index_vars(shape, prefix="i"):
    """fresh generic index variables for a shape plus their range assumptions"""
    idx, rng = [], []
    for k, d in enumerate(shape):
        v = z3.Int("%s!%d_%s" % (prefix, next(_ids), d.name if isinstance(d, Dim) else str(d)))
        idx.append(v)
        rng += [v >= 0, v < dim_size(d)]
    return tuple(idx), rng


def same_shape(a, b):
    return len(a) == len(b) and all(same_dim(x, y) for x, y in zip(a, b))


def prove_code_equals(thunk, spec, assumptions=(), tier="quick", name="", where=None, allow_mutation=False):
    """run thunk() (real code on symbolic arrays) along every value-dependent path; on each path the result must
    equal spec (a SymArr or a thunk) under the path condition"""
    paths = Paths(list(assumptions) + [d.n >= 1 for d in DIMS])
    FRAME["epoch"] += 1
    FRAME["start"], FRAME["violations"] = FRAME["epoch"], []
    try:
        outs = paths.run(thunk)
    finally:
        viol, FRAME["start"] = list(FRAME["violations"]), None
    if viol and not allow_mutation:
        return core.refuted("frames", "%s: frame obligation failed (nothing that existed before the call may be written): %s"
                            % (name, "; ".join(sorted(set(viol)))), witness_id=name + ":frame")
    total = None
    for pc, code in outs:
        sp = spec() if callable(spec) else spec
        r = prove_arrays_equal(code, sp, list(assumptions) + pc, tier=tier, name=name, where=where)
        if pc:
            r.detail = "on path %s: %s" % ([str(c) for c in pc], r.detail)
        if r.status != core.PROVED:
            return r
        if total is None:
            total = r
        else:
            total.time_s += r.time_s
    if total is not None and len(outs) > 1:
        total.detail = "%d value-dependent paths; %s" % (len(outs), total.detail)
    return total


def prove_arrays_equal(code, spec, assumptions=(), tier="quick", name="", where=None):
    """forall indices: code[idx] == spec[idx] (shapes must agree dimension by dimension)"""
    if not is_arr(code):
        if isinstance(code, Sc) or isinstance(code, (int, float)):
            code = SymArr((), lambda idx, t=term(code): t)
        else:
            return core.refuted("symnp", "%s: result is %s, an array of shape %s was specified" % (name, type(code).__name__, spec.shape),
                                witness_id=name + ":type")
    if not same_shape(code.shape, spec.shape):
        return core.refuted("symnp", "%s: shape obligation failed: code %s, specified %s" % (name, code.shape, spec.shape),
                            witness_id=name + ":shape")
    idx, rng = index_vars(spec.shape)
    if where is not None:       # the contract speaks only about the entries satisfying where(idx)
        rng = rng + list(where(idx))
    nz = SumNormalizer(list(assumptions) + rng, tier)
    r = nz.prove_eq(code.elem(idx), spec.elem(idx), name=name)
    r.detail = "%s at generic index %s: %s" % (name, [str(i) for i in idx], r.detail)
    return r
