"""pyvc extension: nested dictionaries as an uninterpreted sort (DESIGN.md E1, used for update_config).

Values of arbitrary Python type are terms of the uninterpreted sort Val with
   isdict : Val -> Bool,  haskey : Val x Key -> Bool,  get : Val x Key -> Val,  truthy : Val -> Bool
(`get` on an absent key is unspecified).  Supported program shape: a local dictionary created as `{}`, filled by a
`for k in set([*a.keys(), *b.keys()])` loop whose body writes only `out[k]`, and returned.

Loop rule (order independence): the body is executed once for a generic key k of the iterated set; every path of
the body must write exactly `out[k]` (checked), and nothing else is mutated (only Name assignments and that store
are in the subset).  Hence the final dictionary has exactly the iterated keys and `out[k]` is the value written by
the body for k, whatever the iteration order of the set.

Recursion: a recursive call of the function under verification is replaced by its own contract (induction
hypothesis); it is accepted as decreasing only when its first argument is `get(<first parameter>, _)`, i.e. a
structurally smaller value; its precondition is a call-site obligation.
"""
import ast, itertools
import z3
from .core import OutsideSubset
from . import pyvc
from .pyvc import V, BoolV, NoneV, Raised, Returned, FuncV

Val = z3.DeclareSort("Val")
Key = z3.DeclareSort("Key")
isdict = z3.Function("isdict", Val, z3.BoolSort())
haskey = z3.Function("haskey", Val, Key, z3.BoolSort())
get = z3.Function("get", Val, Key, Val)
truthy = z3.Function("truthy", Val, z3.BoolSort())
_n = itertools.count()

SEMANTICS = [
    "arbitrary Python values are terms of an uninterpreted sort Val (isdict, haskey, get, truthy); dict == is extensional",
    "`d[k]` raises KeyError iff not haskey(d,k); `x.keys()` raises AttributeError iff not isdict(x)",
    "iterating set([*a.keys(), *b.keys()]) visits every key of a or b exactly once, in unspecified order",
    "`x or y` evaluates to x if truthy(x) else y; isinstance(x, dict) is isdict(x) (dict subclasses not distinguished)",
]


class ValV(V):
    pytype = "object"

    def __init__(self, z):
        self.z = z


class KeyV(V):
    pytype = "key"

    def __init__(self, z):
        self.z = z


class KeysV(V):
    pytype = "dict_keys"

    def __init__(self, d):
        self.d = d          # z3 Val term


class KeyUnionV(V):
    pytype = "set"

    def __init__(self, dicts):
        self.dicts = dicts  # list of z3 Val terms


class LocalDictV(V):
    pytype = "dict"

    def __init__(self):
        self.writes = []    # list of (KeyV, value) in program order (generic-key iteration only)
        self.comp = None    # after a loop: (key z3 const, domain dicts, cases [(pc list, defs list, value)])


class DictVM(pyvc.VM):
    def __init__(self, module, rec_name=None, rec_contract=None, params=None, **kw):
        super().__init__(module, **kw)
        self.rec_name, self.rec_contract, self.params = rec_name, rec_contract, params
        self.bad_decreases = []
        self.frame_violations = []

    # -- values
    def truth(self, v):
        if isinstance(v, ValV):
            return self.decide(truthy(v.z))
        return super().truth(v)

    def e_Dict(self, e, env):
        if e.keys:
            raise OutsideSubset("non-empty dict literal")
        return LocalDictV()

    def e_Name(self, e, env):
        if e.id in env:
            return env[e.id]
        if e.id in ("isinstance", "set", "dict"):
            return pyvc.BuiltinV(e.id)
        return super().e_Name(e, env)

    def builtin(self, name, args, kwargs):
        if name == "isinstance":
            x, t = args
            if isinstance(t, pyvc.BuiltinV) and t.name == "dict":
                if isinstance(x, ValV):
                    return BoolV(isdict(x.z))
                if isinstance(x, LocalDictV):
                    return BoolV(True)
                if isinstance(x, pyvc.NoneV):
                    return BoolV(False)
            raise OutsideSubset("isinstance(%s, %s)" % (type(x).__name__, getattr(t, "name", t)))
        if name == "set":
            (x,) = args
            if isinstance(x, KeyUnionV):
                return x
            if isinstance(x, KeysV):
                return KeyUnionV([x.d])
            raise OutsideSubset("set(%s)" % type(x).__name__)
        return super().builtin(name, args, kwargs)

    def e_List(self, e, env):
        if e.elts and all(isinstance(x, ast.Starred) for x in e.elts):
            ds = []
            for x in e.elts:
                v = self.eval(x.value, env)
                if not isinstance(v, KeysV):
                    raise OutsideSubset("[*%s]" % type(v).__name__)
                ds.append(v.d)
            return KeyUnionV(ds)
        return super().e_Tuple(e, env)

    def e_Set(self, e, env):
        # {*a.keys(), *b.keys()} is set([*a.keys(), *b.keys()])
        if e.elts and all(isinstance(x, ast.Starred) for x in e.elts):
            return self.e_List(e, env)
        return super().e_Set(e, env)

    def e_Attribute(self, e, env):
        base = self.eval(e.value, env)
        if isinstance(base, ValV) and e.attr == "get":
            if not self.decide(isdict(base.z)):
                raise Raised("AttributeError", "'%s' object has no attribute 'get'" % "leaf")
            return _GetMethod(base.z)
        if isinstance(base, ValV) and e.attr == "keys":
            if not self.decide(isdict(base.z)):
                raise Raised("AttributeError", "'%s' object has no attribute 'keys'" % "leaf")
            return _KeysMethod(base.z)
        return super().e_Attribute(e, env)

    def e_Call(self, e, env):
        f = self.eval(e.func, env)
        if isinstance(f, _KeysMethod):
            return KeysV(f.d)
        if isinstance(f, _GetMethod):
            if e.keywords or not 1 <= len(e.args) <= 2:
                raise OutsideSubset("dict.get call shape")
            k = self.eval(e.args[0], env)
            if not isinstance(k, KeyV):
                raise OutsideSubset("dict.get with key %s" % type(k).__name__)
            if self.decide(haskey(f.d, k.z)):
                return ValV(get(f.d, k.z))
            return self.eval(e.args[1], env) if len(e.args) == 2 else pyvc.NoneV()
        if isinstance(f, FuncV) and f.qualname == self.rec_name and f.bound is None:
            args = [self.eval(a, env) for a in e.args]
            return self.recursive_call(args)
        return super().e_Call(e, env)

    def recursive_call(self, args):
        c = self.rec_contract
        zs = []
        for a in args:
            if not isinstance(a, ValV):
                raise OutsideSubset("recursive call with %s" % type(a).__name__)
            zs.append(a.z)
        # structural decrease: first argument must be get(<first parameter>, _)
        first = zs[0]
        ok = z3.is_app(first) and first.decl().eq(get) and first.children()[0].eq(self.params[0])
        if not ok:
            self.bad_decreases.append(str(first))
        req = c["requires"](*zs)
        s = z3.Solver()
        s.set("timeout", self.check_ms)
        s.add(*self.pc)
        s.add(*self.defs)
        s.add(z3.Not(req))
        if s.check() != z3.unsat:
            try:
                model = s.model()
            except Exception:
                model = None
            self.callsite_failures.append((self.rec_name, list(self.pc) + list(self.defs), req, model))
            # the callee's behaviour outside its precondition is whatever the body does there; model the failing
            # attribute access of the real body: not isdict(arg) -> AttributeError
            for z in zs:
                if not self.decide(isdict(z)):
                    raise Raised("AttributeError", "recursive call outside its precondition")
        return ValV(c["result"](*zs))

    def member_of(self, a, b):
        if isinstance(b, ValV):
            # `k in d` on a dictionary is `k in d.keys()`; on other values (strings, lists, numbers) it is something else
            if not isinstance(a, KeyV):
                raise OutsideSubset("membership of %s in a value" % type(a).__name__)
            if not self.decide(isdict(b.z)):
                raise OutsideSubset("`in` applied to a non-dictionary value")
            return haskey(b.z, a.z)
        if isinstance(b, KeysV):
            if not isinstance(a, KeyV):
                raise OutsideSubset("membership of %s in keys()" % type(a).__name__)
            return haskey(b.d, a.z)
        return super().member_of(a, b)

    def e_Subscript(self, e, env):
        base = self.eval(e.value, env)
        if isinstance(base, ValV):
            idx = self.eval(e.slice, env)
            if not isinstance(idx, KeyV):
                raise OutsideSubset("subscript with %s" % type(idx).__name__)
            if not self.decide(isdict(base.z)):
                raise Raised("TypeError", "leaf is not subscriptable")
            if not self.decide(haskey(base.z, idx.z)):
                raise Raised("KeyError", "missing key")
            return ValV(get(base.z, idx.z))
        return super().e_Subscript(e, env)

    def e_BoolOp(self, e, env):
        vals0 = self.eval(e.values[0], env)
        if isinstance(vals0, ValV):
            # value semantics of and/or on arbitrary values
            cur = vals0
            for x in e.values[1:]:
                t = self.decide(truthy(cur.z))
                if isinstance(e.op, ast.Or):
                    if t:
                        return cur
                else:
                    if not t:
                        return cur
                cur = self.eval(x, env)
                if not isinstance(cur, ValV):
                    raise OutsideSubset("mixed and/or operands")
            return cur
        # re-evaluation of the first operand is side-effect free in the subset
        return super().e_BoolOp(e, env)

    # -- statements
    def assign(self, target, val, env):
        if isinstance(target, ast.Subscript):
            base = self.eval(target.value, env)
            if isinstance(base, ValV):
                # writing into an argument (or a sub-dictionary of one): frame violation; execution continues
                self.frame_violations.append("item assignment into an input value at line %d" % target.lineno)
                return
            if not isinstance(base, LocalDictV):
                raise OutsideSubset("item assignment into %s (only a local `{}` may be written)" % type(base).__name__)
            k = self.eval(target.slice, env)
            if not isinstance(k, KeyV):
                raise OutsideSubset("store with key %s" % type(k).__name__)
            base.writes.append((k, val))
            return
        return super().assign(target, val, env)

    def exec(self, st, env):
        if isinstance(st, ast.For):
            return self.exec_for(st, env)
        if isinstance(st, ast.Continue):
            raise _Continue()
        return super().exec(st, env)

    def exec_for(self, st, env):
        if st.orelse or not isinstance(st.target, ast.Name):
            raise OutsideSubset("for/else or tuple target")
        it = self.eval(st.iter, env)
        if not isinstance(it, KeyUnionV):
            raise OutsideSubset("loop over %s" % type(it).__name__)
        outs = [n for n, v in env.items() if isinstance(v, LocalDictV)]
        if len(outs) != 1:
            raise OutsideSubset("loop rule needs exactly one local dictionary, found %s" % outs)
        out = env[outs[0]]
        if out.writes or out.comp:
            raise OutsideSubset("local dictionary written before the loop")
        k = z3.Const("k!%d" % next(_n), Key)
        member = z3.Or(*[haskey(d, k) for d in it.dicts])
        # generic iteration: explore the body's paths in a nested VM that shares pc/defs
        sub = DictVM(self.m, rec_name=self.rec_name, rec_contract=self.rec_contract, params=self.params,
                     contracts=self.contracts, own=self.own, check_ms=self.check_ms)
        cases = []
        work = [[]]
        base_defs = list(self.defs) + list(self.pc) + [member]
        while work:
            plan = work.pop()
            sub.pc, sub.defs, sub.trace, sub.plan, sub.pending, sub.stack = [], list(base_defs), [], plan, [], list(self.stack)
            env2 = dict(env)
            fresh_out = LocalDictV()
            env2[outs[0]] = fresh_out
            env2[st.target.id] = pyvc_key(k)
            try:
                try:
                    try:
                        sub.exec_block(st.body, env2)
                    except _Continue:
                        pass                  # the rest of this iteration's body is skipped; nothing follows the body
                    kind, exc = "ok", None
                except Raised as r:
                    kind, exc = "raise", r.exc
                except Returned:
                    raise OutsideSubset("return inside the loop")
                cases.append({"pc": list(sub.pc), "defs": sub.defs[len(base_defs):], "kind": kind, "exc": exc,
                              "writes": list(fresh_out.writes)})
            except pyvc.Infeasible:
                pass
            work.extend(sub.pending)
        self.callsite_failures += sub.callsite_failures
        self.bad_decreases += sub.bad_decreases
        self.frame_violations += sub.frame_violations
        out.comp = {"k": k, "dicts": it.dicts, "cases": cases, "member": member}


class _Continue(Exception):
    pass


def pyvc_key(k):
    return KeyV(k)


class _GetMethod(V):
    pytype = "method"

    def __init__(self, d):
        self.d = d


class _KeysMethod(V):
    pytype = "method"

    def __init__(self, d):
        self.d = d
