"""E5 -- conservative frame / effect checker (AST) for `assigns`-style obligations.

A function under a frame contract must not
  (i)   declare `global` / `nonlocal`;
  (ii)  assign, augmented-assign, subscript-store, attribute-store, delete or call a known mutator on an object reachable by name
        from module level, from a class body (also through `self.` / `cls.` when the attribute is bound to a mutable in the class
        body) or from a mutable default argument;
  (iii) read ambient state (os.environ, os.getcwd, Path.cwd, time, random, datetime, id(), relative-path probes) unless the
        contract lists it;
  (iv)  iterate a `set` (iteration order depends on the hash seed) unless the contract carries a commutation argument for it.
It is unsound for setattr / exec / C extensions / aliasing through locals, and says so.  Module-level statements (executed
once at import) are reported separately.
"""
import ast, os

MUTATORS = {"append", "extend", "update", "pop", "popitem", "setdefault", "add", "clear", "sort", "remove", "insert", "discard", "reverse", "__setitem__", "__delitem__"}
AMBIENT = {"os.environ", "os.getcwd", "os.getenv", "Path.cwd", "time.time", "time.perf_counter", "datetime.now", "datetime.datetime.now", "random.", "numpy.random.",
           "os.listdir", "glob.glob", "glob("}


def _name_chain(node):
    parts = []
    while isinstance(node, ast.Attribute):
        parts.append(node.attr)
        node = node.value
    if isinstance(node, ast.Name):
        parts.append(node.id)
        return ".".join(reversed(parts))
    return None


def _root(node):
    while isinstance(node, (ast.Attribute, ast.Subscript)):
        node = node.value
    return node.id if isinstance(node, ast.Name) else None


def _is_mutable_literal(v):
    if isinstance(v, (ast.Dict, ast.List, ast.Set, ast.ListComp, ast.DictComp, ast.SetComp)):
        return True
    if isinstance(v, ast.Call):
        f = _name_chain(v.func) or ""
        return f.split(".")[-1] in ("dict", "list", "set", "OrderedDict", "defaultdict", "UnitRegistry", "_load_writer_rules_file", "Logger", "getLogger", "compile") or True
    return False


class FunctionReport:
    def __init__(self, qualname, lineno):
        self.qualname, self.lineno = qualname, lineno
        self.writes, self.ambient, self.set_iter, self.globals, self.memo = [], [], [], [], []

    def findings(self):
        return [("global", g) for g in self.globals] + [("memo", m) for m in self.memo] + [("write", w) for w in self.writes] + [("ambient", a) for a in self.ambient] + [("set-iteration", x) for x in self.set_iter]


def analyse(path):
    """-> dict qualname -> FunctionReport for every function/method (nested functions are part of their parent)"""
    with open(path) as fp:
        tree = ast.parse(fp.read(), path)
    module_names = set()
    for st in tree.body:
        if isinstance(st, (ast.Assign, ast.AnnAssign)):
            targets = st.targets if isinstance(st, ast.Assign) else [st.target]
            for t in targets:
                for n in ast.walk(t):
                    if isinstance(n, ast.Name):
                        module_names.add(n.id)
        elif isinstance(st, (ast.Import, ast.ImportFrom)):
            pass
    reports = {}

    def visit_function(fn, qual, class_mutables):
        rep = FunctionReport(qual, fn.lineno)
        local = {a.arg for a in fn.args.args + fn.args.kwonlyargs}
        if fn.args.vararg:
            local.add(fn.args.vararg.arg)
        if fn.args.kwarg:
            local.add(fn.args.kwarg.arg)
        mutable_defaults = set()
        pos = fn.args.args[len(fn.args.args) - len(fn.args.defaults):]
        for a, d in zip(pos, fn.args.defaults):
            if isinstance(d, (ast.Dict, ast.List, ast.Set)):
                mutable_defaults.add(a.arg)
        for n in ast.walk(fn):
            if isinstance(n, (ast.Assign, ast.AnnAssign, ast.AugAssign, ast.For, ast.With, ast.comprehension, ast.NamedExpr)):
                tg = []
                if isinstance(n, ast.Assign):
                    tg = n.targets
                elif isinstance(n, (ast.AnnAssign, ast.AugAssign, ast.NamedExpr)):
                    tg = [n.target]
                elif isinstance(n, (ast.For, ast.comprehension)):
                    tg = [n.target]
                elif isinstance(n, ast.With):
                    tg = [i.optional_vars for i in n.items if i.optional_vars is not None]
                for t in tg:
                    for x in ast.walk(t):
                        if isinstance(x, ast.Name) and isinstance(x.ctx, ast.Store):
                            local.add(x.id)
            if isinstance(n, (ast.FunctionDef, ast.Lambda)) and n is not fn:
                args = n.args
                for a in args.args:
                    local.add(a.arg)
            if isinstance(n, ast.Import):
                for al in n.names:
                    local.add((al.asname or al.name).split(".")[0])
            if isinstance(n, ast.ImportFrom):
                for al in n.names:
                    local.add(al.asname or al.name)
        # locals bound to sets, and locals bound to objects this function did not create (parameters, attribute reads, getattr)
        set_locals, borrowed = set(), {}
        for a_ in fn.args.args:
            if a_.arg not in ("self", "cls"):
                borrowed[a_.arg] = "parameter %s" % a_.arg
        for n in ast.walk(fn):
            if isinstance(n, ast.Assign) and len(n.targets) == 1 and isinstance(n.targets[0], ast.Name):
                nm, v = n.targets[0].id, n.value
                if (isinstance(v, ast.Call) and (_name_chain(v.func) or "") in ("set", "frozenset")) or isinstance(v, (ast.Set, ast.SetComp)):
                    set_locals.add(nm)
                fresh = isinstance(v, (ast.Constant, ast.BinOp, ast.UnaryOp, ast.Dict, ast.List, ast.Tuple, ast.Set, ast.ListComp, ast.DictComp, ast.SetComp, ast.JoinedStr,
                                       ast.Compare, ast.BoolOp, ast.Lambda, ast.GeneratorExp, ast.IfExp))
                if isinstance(v, ast.Call):
                    callee = (_name_chain(v.func) or (v.func.attr if isinstance(v.func, ast.Attribute) else ""))
                    fresh = callee.split(".")[-1] not in ("getattr", "get", "asarray", "setdefault", "pop")
                if isinstance(v, (ast.Attribute, ast.Subscript, ast.Name)):
                    fresh = False
                    if isinstance(v, ast.Name) and v.id not in borrowed:
                        fresh = True
                if not fresh and nm not in borrowed:       # flow-insensitive: borrowed once, borrowed always (parameters included)
                    borrowed[nm] = ast.unparse(v)[:50]
        for dec in fn.decorator_list:
            d = dec.func if isinstance(dec, ast.Call) else dec
            chain = _name_chain(d) or ""
            if chain.split(".")[-1] in ("lru_cache", "cache", "memoize", "memoized"):
                # a memo keyed by the arguments is a frame violation when the result also depends on something the key does not contain: the CONTENT of a
                # file named by an argument.  (A parameterless memo of packaged read-only data is not flagged; aliasing of its result is a run-time matter.)
                params = [a.arg for a in fn.args.args + fn.args.kwonlyargs if a.arg not in ("self", "cls")]
                readers = {"open", "read_table", "read_csv", "read_fwf", "loadtxt", "genfromtxt", "fromfile", "read_text", "read_bytes", "load", "safe_load", "readlines", "read"}
                reads = sorted({(c.func.attr if isinstance(c.func, ast.Attribute) else getattr(c.func, "id", "")) for c in ast.walk(fn) if isinstance(c, ast.Call)} & readers)
                if params and reads:
                    rep.memo.append("process-wide memo (@%s) on %s(%s), line %d, whose body reads a file (%s): the result is kept per argument value although the file behind "
                                    "the name can change between calls" % (chain, qual, ", ".join(params), fn.lineno, ", ".join(reads)))
        globals_declared = set()
        for n in ast.walk(fn):
            if isinstance(n, (ast.Global, ast.Nonlocal)):
                rep.globals.append("%s %s (line %d)" % (type(n).__name__.lower(), ", ".join(n.names), n.lineno))
                globals_declared |= set(n.names)

        def shared(node):
            """is the object denoted by node reachable from module level / class body / mutable default?"""
            r = _root(node)
            if r is None:
                return None
            if r in ("self", "cls") and isinstance(node, (ast.Attribute, ast.Subscript)):
                # self.X[...] / self.X.mutator(): shared iff X is a class-body mutable
                base = node
                while isinstance(base, ast.Subscript):
                    base = base.value
                chain = _name_chain(base)
                if chain and len(chain.split(".")) >= 2 and chain.split(".")[1] in class_mutables:
                    return "class attribute %s" % chain
                return None
            if r in mutable_defaults:
                return "mutable default argument %s" % r
            if (r in module_names or r in globals_declared) and (r not in local or r in globals_declared):
                return "module-level %s" % r
            return None
        for n in ast.walk(fn):
            if isinstance(n, (ast.Assign, ast.AugAssign, ast.AnnAssign, ast.Delete)):
                tg = n.targets if isinstance(n, (ast.Assign, ast.Delete)) else [n.target]
                for t in tg:
                    for x in ([t] if not isinstance(t, (ast.Tuple, ast.List)) else t.elts):
                        if isinstance(x, (ast.Subscript, ast.Attribute)):
                            sh = shared(x)
                            if sh:
                                rep.writes.append("%s written at line %d (%s)" % (sh, n.lineno, ast.unparse(x)[:60]))
                        elif isinstance(x, ast.Name) and x.id in globals_declared:
                            rep.writes.append("module-level %s rebound at line %d" % (x.id, n.lineno))
            if isinstance(n, ast.Call) and isinstance(n.func, ast.Attribute) and n.func.attr in MUTATORS:
                sh = shared(n.func.value) if isinstance(n.func.value, (ast.Attribute, ast.Subscript)) else \
                    (("module-level %s" % n.func.value.id) if isinstance(n.func.value, ast.Name) and
                     ((n.func.value.id in module_names and n.func.value.id not in local) or n.func.value.id in mutable_defaults) else None)
                if sh:
                    rep.writes.append("%s mutated by .%s() at line %d" % (sh, n.func.attr, n.lineno))
            if isinstance(n, (ast.Attribute, ast.Call)):
                chain = _name_chain(n.func if isinstance(n, ast.Call) else n) or ""
                for amb in AMBIENT:
                    if chain == amb.rstrip("(") or (amb.endswith(".") and chain.startswith(amb)):
                        rep.ambient.append("%s at line %d" % (chain, n.lineno))
                if isinstance(n, ast.Call) and chain in ("id",):
                    rep.ambient.append("%s() at line %d" % (chain, n.lineno))
                if isinstance(n, ast.Call) and isinstance(n.func, ast.Attribute) and n.func.attr in ("exists", "is_file", "is_dir", "iterdir", "glob"):
                    rep.ambient.append("file-system probe %s at line %d" % (ast.unparse(n)[:50], n.lineno))
            if isinstance(n, (ast.For, ast.comprehension)):
                it = n.iter
                if (isinstance(it, ast.Call) and (_name_chain(it.func) or "") in ("set", "frozenset")) or isinstance(it, (ast.Set, ast.SetComp)) or \
                        (isinstance(it, ast.Name) and it.id in set_locals) or \
                        (isinstance(it, ast.Call) and isinstance(it.func, ast.Name) and it.func.id in ("list", "tuple", "enumerate", "iter") and it.args
                         and isinstance(it.args[0], ast.Name) and it.args[0].id in set_locals):
                    rep.set_iter.append("iteration over %s at line %d" % (ast.unparse(it)[:60], getattr(n, "lineno", getattr(it, "lineno", 0))))
            # numpy's out= handed an object this function did not create; mutator called on such an object
            if isinstance(n, ast.Call):
                for kw in n.keywords:
                    if kw.arg == "out":
                        tgt = kw.value
                        r = _root(tgt)
                        if (isinstance(tgt, ast.Name) and tgt.id in borrowed) or (isinstance(tgt, (ast.Attribute, ast.Subscript)) and r is not None):
                            rep.writes.append("out=%s writes into an object this function did not create (%s) at line %d"
                                              % (ast.unparse(tgt)[:40], borrowed.get(getattr(tgt, "id", None), "attribute / item of " + str(r)), n.lineno))
                if isinstance(n.func, ast.Attribute) and n.func.attr in (MUTATORS | {"fill", "resize", "ito", "ito_base_units", "partition", "itemset", "setfield", "put"}) \
                        and isinstance(n.func.value, ast.Name) and n.func.value.id in borrowed and n.func.value.id not in ("self", "cls"):
                    rep.writes.append("in-place .%s() on %s, which is bound to %s (possibly shared with the caller / a cache) at line %d"
                                      % (n.func.attr, n.func.value.id, borrowed[n.func.value.id], n.lineno))
            # in-place update of an object that was not created in this function (aliasing through a local name)
            if isinstance(n, ast.AugAssign) and isinstance(n.target, ast.Name) and n.target.id in borrowed:
                rep.writes.append("in-place %s= on %s, which is bound to %s (possibly shared with the caller / a cache) at line %d"
                                  % (type(n.op).__name__, n.target.id, borrowed[n.target.id], n.lineno))
            if isinstance(n, (ast.Assign, ast.AugAssign)):
                tg = n.targets if isinstance(n, ast.Assign) else [n.target]
                for t in tg:
                    if isinstance(t, ast.Subscript) and isinstance(t.value, ast.Name) and t.value.id in borrowed:
                        rep.writes.append("item assignment into %s, which is bound to %s (possibly shared) at line %d" % (t.value.id, borrowed[t.value.id], n.lineno))
        reports[qual] = rep

    for st in tree.body:
        if isinstance(st, ast.FunctionDef):
            visit_function(st, st.name, set())
        elif isinstance(st, ast.ClassDef):
            cm = set()
            for b in st.body:
                if isinstance(b, ast.Assign) and isinstance(b.value, (ast.Dict, ast.List, ast.Set, ast.Call, ast.ListComp, ast.DictComp)):
                    for t in b.targets:
                        if isinstance(t, ast.Name):
                            cm.add(t.id)
            for b in st.body:
                if isinstance(b, ast.FunctionDef):
                    visit_function(b, st.name + "." + b.name, cm)
    return reports
