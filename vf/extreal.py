"""E3 -- extended-real model of float64 for overflow / NaN obligations (DESIGN.md section 3).

A value is fin(r), +inf, -inf or nan.  Every operation is exact on reals but yields +-inf when |r| exceeds the
largest double and obeys the IEEE rules for inf/nan (inf/inf = nan, x/inf = 0, 0*inf = nan, x/0 = +-inf, 0/0 = nan).
exp(x) is +inf iff x > 709.782712893384, 0 iff x < -745.13, otherwise an uninterpreted positive value E(x) with
   1 + x <= E(x),   E(x) <= 1/(1-x) for x < 1,   x < 0 => E(x) < 1,   E(x)*E(-x) = 1 (instantiated pairwise).
Rounding error is NOT modelled (assumption A-FP).
"""
import z3

FIN, PINF, NINF, NAN = 0, 1, 2, 3
MAXF = z3.RealVal("179769313486231570814527423731704356798070567525844996598917476803157260780028538760589558632766878171540458953514382464234321326889464182768467546703537516986049910576551282076245490090389328944075868508455133942304583236903222948165808559332123348274797826204144723168738177180919299881250404026184124858368")
EXP_HI = z3.RealVal("709.782712893384")
EXP_LO = z3.RealVal("-745.13")
EXPF = z3.Function("Exp_fin", z3.RealSort(), z3.RealSort())


class XF:
    """kind: z3 Int term in {FIN, PINF, NINF, NAN}; r: z3 Real (meaningful when kind == FIN)"""
    __array_ufunc__ = None
    exps = []     # (argument term, value term) of every finite exp evaluated, for the pairwise axiom

    def __init__(self, kind, r):
        self.kind = z3.IntVal(kind) if isinstance(kind, int) else kind
        self.r = r

    @staticmethod
    def of(x):
        if isinstance(x, XF):
            return x
        if isinstance(x, (int, float)):
            if x != x:
                return XF(NAN, z3.RealVal(0))
            if x in (float("inf"), float("-inf")):
                return XF(PINF if x > 0 else NINF, z3.RealVal(0))
            from .symnp import rat
            return XF(FIN, rat(x))
        if isinstance(x, z3.ExprRef):
            return XF(FIN, x)
        raise TypeError("XF.of(%r)" % (x,))

    @staticmethod
    def fin(r):
        """a real result that overflows to +-inf beyond the largest double"""
        return XF(z3.If(r > MAXF, PINF, z3.If(r < -MAXF, NINF, FIN)), r)

    def is_fin(self): return self.kind == FIN
    def is_nan(self): return self.kind == NAN
    def is_inf(self): return z3.Or(self.kind == PINF, self.kind == NINF)

    def __neg__(self):
        return XF(z3.If(self.kind == PINF, NINF, z3.If(self.kind == NINF, PINF, self.kind)), -self.r)

    def _add(a, b):
        a, b = XF.of(a), XF.of(b)
        f = XF.fin(a.r + b.r)
        kind = z3.If(z3.Or(a.kind == NAN, b.kind == NAN), NAN,
                     z3.If(z3.And(a.kind == FIN, b.kind == FIN), f.kind,
                           z3.If(a.kind == FIN, b.kind,
                                 z3.If(b.kind == FIN, a.kind,
                                       z3.If(a.kind == b.kind, a.kind, NAN)))))      # inf + (-inf) = nan
        return XF(kind, f.r)

    def __add__(self, o): return XF._add(self, o)
    def __radd__(self, o): return XF._add(o, self)
    def __sub__(self, o): return XF._add(self, -XF.of(o))
    def __rsub__(self, o): return XF._add(o, -self)

    def _sign_pos(x):
        """x > 0 for an extended real (only used for non-nan)"""
        return z3.Or(x.kind == PINF, z3.And(x.kind == FIN, x.r > 0))

    def _is_zero(x):
        return z3.And(x.kind == FIN, x.r == 0)

    def _mul(a, b):
        a, b = XF.of(a), XF.of(b)
        f = XF.fin(a.r * b.r)
        pos = XF._sign_pos(a) == XF._sign_pos(b)
        anyinf = z3.Or(a.is_inf(), b.is_inf())
        kind = z3.If(z3.Or(a.kind == NAN, b.kind == NAN), NAN,
                     z3.If(z3.And(anyinf, z3.Or(XF._is_zero(a), XF._is_zero(b))), NAN,      # 0 * inf
                           z3.If(anyinf, z3.If(pos, PINF, NINF), f.kind)))
        return XF(kind, f.r)

    def __mul__(self, o): return XF._mul(self, o)
    def __rmul__(self, o): return XF._mul(o, self)

    def _div(a, b):
        a, b = XF.of(a), XF.of(b)
        q = a.r / b.r
        f = XF.fin(q)
        b_nonneg = z3.Or(b.kind == PINF, z3.And(b.kind == FIN, b.r >= 0))
        kind = z3.If(z3.Or(a.kind == NAN, b.kind == NAN), NAN,
               z3.If(z3.And(a.is_inf(), b.is_inf()), NAN,                                   # inf / inf
               z3.If(z3.And(XF._is_zero(a), XF._is_zero(b)), NAN,                           # 0 / 0
               z3.If(b.is_inf(), FIN,                                                       # x / inf = 0
               z3.If(a.is_inf(), z3.If((a.kind == PINF) == b_nonneg, PINF, NINF),           # inf / x
               z3.If(XF._is_zero(b), z3.If(a.r > 0, PINF, NINF),                            # x / 0
                     f.kind))))))
        r = z3.If(b.is_inf(), z3.RealVal(0), q)
        return XF(kind, r)

    def __truediv__(self, o): return XF._div(self, o)
    def __rtruediv__(self, o): return XF._div(o, self)

    # IEEE comparisons: false whenever a nan is involved
    def _gt(a, b):
        a, b = XF.of(a), XF.of(b)
        return XB(z3.And(a.kind != NAN, b.kind != NAN,
                         z3.Or(z3.And(a.kind == FIN, b.kind == FIN, a.r > b.r), z3.And(a.kind == PINF, b.kind != PINF), z3.And(b.kind == NINF, a.kind != NINF))))

    def _ge(a, b):
        a, b = XF.of(a), XF.of(b)
        return XB(z3.And(a.kind != NAN, b.kind != NAN,
                         z3.Or(z3.And(a.kind == FIN, b.kind == FIN, a.r >= b.r), a.kind == PINF, b.kind == NINF)))

    def __gt__(self, o): return XF._gt(self, o)
    def __lt__(self, o): return XF._gt(o, self)
    def __ge__(self, o): return XF._ge(self, o)
    def __le__(self, o): return XF._ge(o, self)

    def __eq__(self, o):
        a, b = self, XF.of(o)
        return XB(z3.And(a.kind != NAN, b.kind != NAN, a.kind == b.kind, z3.Or(a.kind != FIN, a.r == b.r)))

    def __ne__(self, o):
        return XB(z3.Not(self.__eq__(o).z))

    __hash__ = None

    def __pow__(self, n):
        if not isinstance(n, int) or n < 1:
            raise TypeError("XF power %r" % (n,))
        out = self
        for _ in range(n - 1):
            out = out * self
        return out

    def exp(self):
        e = EXPF(self.r)
        XF.exps.append((self.r, e))
        kind = z3.If(self.kind == NAN, NAN, z3.If(self.kind == PINF, PINF, z3.If(self.kind == NINF, FIN,
                     z3.If(self.r > EXP_HI, PINF, FIN))))
        r = z3.If(z3.Or(self.kind == NINF, z3.And(self.kind == FIN, self.r < EXP_LO)), z3.RealVal(0), e)
        return XF(kind, r)

    @staticmethod
    def axioms():
        out = []
        for x, e in XF.exps:
            out += [e > 0, e <= MAXF, e >= 1 + x, z3.Implies(x < 1, e * (1 - x) <= 1), z3.Implies(x < 0, e < 1), z3.Implies(x > 0, e > 1)]
        for i in range(len(XF.exps)):
            for j in range(i + 1, len(XF.exps)):
                (x, a), (y, b) = XF.exps[i], XF.exps[j]
                s = z3.simplify(x + y)
                if z3.is_rational_value(s) and s.numerator_as_long() == 0:
                    out.append(a * b == 1)
        return out


class XB:
    """truth value of a comparison of extended reals (a z3 Bool); only numpy.where may consume it"""

    def __init__(self, z):
        self.z = z

    def __invert__(self):
        return XB(z3.Not(self.z))

    def __and__(self, o):
        return XB(z3.And(self.z, o.z))

    def __or__(self, o):
        return XB(z3.Or(self.z, o.z))

    def __bool__(self):
        from .core import OutsideSubset
        raise OutsideSubset("a Python branch on a comparison of extended reals")


class XNumpy:
    """numpy stub for scalar extended-real runs"""
    newaxis = None

    def exp(self, x):
        return XF.of(x).exp()

    def where(self, cond, a, b):
        if not isinstance(cond, XB):
            from .core import OutsideSubset
            raise OutsideSubset("numpy.where on %r in an extended-real run" % (cond,))
        a, b = XF.of(a), XF.of(b)
        return XF(z3.If(cond.z, a.kind, b.kind), z3.If(cond.z, a.r, b.r))

    def errstate(self, **kw):
        import contextlib
        return contextlib.nullcontext()

    def isfinite(self, x):
        return XB(XF.of(x).kind == FIN)

    def isnan(self, x):
        return XB(XF.of(x).kind == NAN)

    def __getattr__(self, name):
        from .core import OutsideSubset
        raise OutsideSubset("numpy.%s in an extended-real run" % name)
