"""Lean 4 / Mathlib back end for the stated mathematics (thorough tier): the lemma file must compile without errors and
contain no `sorry`/`admit`/`axiom`."""
import os, re, shutil, subprocess, time
from . import core


def check_file(relpath, timeout=1800):
    path = os.path.join(core.HERE, relpath)
    t0 = time.time()
    exe = shutil.which("lean") or next((c for c in ("/opt/veriftools/lean/bin/lean", "/usr/local/bin/lean") if os.path.exists(c)), None)
    if exe is None:
        return core.unknown("lean", "lean is not on PATH")
    src = open(path).read()
    code = re.sub(r"/-.*?-/", "", src, flags=re.S)
    code = re.sub(r"--.*", "", code)
    bad = [w for w in ("sorry", "admit", "axiom ", "native_decide") if w in code]
    if bad:
        return core.Result(core.ERROR, "lean", "%s contains %s: not a proof" % (relpath, bad))
    try:
        p = subprocess.run([exe, path], capture_output=True, text=True, timeout=timeout, cwd=os.path.dirname(path))
    except subprocess.TimeoutExpired:
        return core.unknown("lean", "lean timed out after %d s" % timeout)
    out = (p.stdout + p.stderr).strip()
    n = len(re.findall(r"^theorem ", src, re.M))
    if p.returncode == 0 and "error" not in out:
        return core.Result(core.PROVED, "lean", "%s: %d theorems compiled against Mathlib (lean exit 0)" % (relpath, n), time_s=time.time() - t0,
                           sample=src[:1200])
    return core.Result(core.UNKNOWN, "lean", "lean exit %d: %s" % (p.returncode, out[-800:]), time_s=time.time() - t0)
