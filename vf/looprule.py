"""E8 `looprule` -- the Hoare loop rule applied to the real source by execution.

A function  `prefix; for/while ...: body; suffix`  is cut at one of its top-level loops on every run (from the AST of the file in
/repo as it is now).  The three statement sequences are compiled UNCHANGED (same file name and line numbers, the function's own
module globals overlaid with contract stubs) and executed by CPython on symbolic objects; the loop construct itself is the only
thing replaced -- by the rule

    {pre} prefix {Inv(0)}          {Inv(k) /\\ guard} body {Inv(k+1)}          {Inv(k) /\\ not guard} suffix {post}

whose three premises become SMT obligations over the state the executed code left behind.  Nothing of the body is modelled by
hand: a changed statement changes the post-state terms.

What the cut drops (reported by `Pieces.dropped()`): the iteration construct (`for x in range(n)` is read as k = 0..n-1 in order,
`while test` re-evaluates `test` on the symbolic state); statements of the prefix that iterate a sequence of symbolic length are
skipped mechanically (`skipped`), names they would bind become unavailable and every later statement that reads one is skipped
as well; these are listed and must be covered by another obligation.

Return / break / continue inside the executed pieces are turned into outcomes ('return', value) / ('break',) / ('continue',);
nested loops keep their own break / continue.
"""
import ast, inspect, textwrap, types
from . import core


class Unavailable(Exception):
    """a statement needs something that only exists for concrete sizes"""


class Outcome:
    def __init__(self, kind, value, env):
        self.kind, self.value, self.env = kind, value, env

    def __repr__(self):
        return "Outcome(%s)" % self.kind


class _Rewriter(ast.NodeTransformer):
    """return / top-level break / continue -> `return (kind, value, locals())`"""

    def __init__(self):
        self.depth = 0

    def _ret(self, kind, value, node):
        new = ast.Return(value=ast.Tuple(elts=[ast.Constant(kind), value or ast.Constant(None),
                                               ast.Call(func=ast.Name("locals", ast.Load()), args=[], keywords=[])], ctx=ast.Load()))
        return ast.copy_location(new, node)

    def visit_FunctionDef(self, node):
        return node

    visit_AsyncFunctionDef = visit_Lambda = visit_ClassDef = visit_FunctionDef

    def visit_Return(self, node):
        return self._ret("return", node.value, node)

    def visit_For(self, node):
        self.depth += 1
        self.generic_visit(node)
        self.depth -= 1
        return node

    visit_While = visit_For

    def visit_Break(self, node):
        return node if self.depth else self._ret("break", None, node)

    def visit_Continue(self, node):
        return node if self.depth else self._ret("continue", None, node)


def _names_read(node):
    return {n.id for n in ast.walk(node) if isinstance(n, ast.Name) and isinstance(n.ctx, ast.Load)}


def _names_bound(node):
    out = set()
    for n in ast.walk(node):
        if isinstance(n, ast.Name) and isinstance(n.ctx, (ast.Store, ast.Del)):
            out.add(n.id)
    return out


class Pieces:
    """prefix / loop / suffix of one function of the repository, re-read from its source file"""

    def __init__(self, func, which=0, stubs=None):
        func = inspect.unwrap(func)
        self.func = func
        src = textwrap.dedent(inspect.getsource(func))
        self.filename = inspect.getsourcefile(func)
        first = func.__code__.co_firstlineno
        tree = ast.parse(src)
        fdef = tree.body[0]
        if not isinstance(fdef, (ast.FunctionDef,)):
            raise core.OutsideSubset("%s is not a plain function" % func.__qualname__)
        ast.increment_lineno(fdef, first - fdef.lineno)
        body = list(fdef.body)
        if body and isinstance(body[0], ast.Expr) and isinstance(getattr(body[0], "value", None), ast.Constant) and isinstance(body[0].value.value, str):
            body = body[1:]
        loops = [k for k, st in enumerate(body) if isinstance(st, (ast.For, ast.While))]
        if which >= len(loops):
            raise core.OutsideSubset("%s has %d top-level loop(s); loop #%d was asked for" % (func.__qualname__, len(loops), which))
        k = loops[which]
        self.prefix, self.loop, self.suffix = body[:k], body[k], body[k + 1:]
        if self.loop.orelse:
            raise core.OutsideSubset("loop with an else clause")
        self.args = [a.arg for a in fdef.args.posonlyargs + fdef.args.args + fdef.args.kwonlyargs]
        self.globs = dict(func.__globals__)
        self.globs.update(stubs or {})
        self.skipped = []
        self.unavailable = set()
        self.source = src

    # ------------------------------------------------------------------ execution of statement sequences
    def _compile(self, stmts, argnames, tail=None):
        import copy
        stmts = [_Rewriter().visit(copy.deepcopy(s)) for s in stmts]
        ret = ast.Return(value=ast.Tuple(elts=[ast.Constant("fall"), tail or ast.Constant(None),
                                               ast.Call(func=ast.Name("locals", ast.Load()), args=[], keywords=[])], ctx=ast.Load()))
        fn = ast.FunctionDef(name="__piece__", args=ast.arguments(posonlyargs=[], args=[ast.arg(a) for a in argnames], kwonlyargs=[], kw_defaults=[],
                                                                  defaults=[]), body=stmts + [ret], decorator_list=[], type_params=[])
        mod = ast.Module(body=[fn], type_ignores=[])
        ast.fix_missing_locations(mod)
        ns = {}
        exec(compile(mod, self.filename, "exec"), self.globs, ns)
        return ns["__piece__"]

    def run(self, stmts, env, tail=None):
        """execute the statements (one compiled unit) in the environment `env` (name -> object)"""
        names = sorted(env)
        f = self._compile(stmts, names, tail)
        kind, value, loc = f(*[env[n] for n in names])
        loc = {k: v for k, v in loc.items() if not k.startswith("__")}
        return Outcome(kind, value, loc)

    def run_prefix(self, env):
        """statement by statement; statements that need a concrete size are skipped and reported"""
        env = dict(env)
        for st in self.prefix:
            reads = _names_read(st)
            if reads & self.unavailable:
                self.skipped.append((st.lineno, ast.unparse(st).splitlines()[0][:100], "reads %s" % sorted(reads & self.unavailable)))
                self.unavailable |= _names_bound(st)
                continue
            try:
                out = self.run([st], env)
            except Unavailable as e:
                self.skipped.append((st.lineno, ast.unparse(st).splitlines()[0][:100], str(e)))
                self.unavailable |= _names_bound(st)
                for n in _names_bound(st):
                    env.pop(n, None)
                continue
            env = out.env
            if out.kind != "fall":
                return out
        return Outcome("fall", None, env)

    def loop_header(self, env):
        """for: (target node, iterable object);  while: the test value"""
        if isinstance(self.loop, ast.For):
            out = self.run([], env, tail=self.loop.iter)
            return self.loop.target, out.value
        out = self.run([], env, tail=self.loop.test)
        return None, out.value

    def run_body(self, env, loopvar=None):
        env = dict(env)
        if isinstance(self.loop, ast.For):
            tgt = ast.Assign(targets=[self.loop.target], value=ast.Name("__item__", ast.Load()))
            ast.copy_location(tgt, self.loop)
            env["__item__"] = loopvar
            return self.run([tgt] + list(self.loop.body), env)
        return self.run(list(self.loop.body), env)

    def run_suffix(self, env):
        reads = set()
        for st in self.suffix:
            reads |= _names_read(st)
        if reads & self.unavailable:
            raise core.OutsideSubset("the code after the loop reads %s, which the prefix could only compute for concrete sizes" % sorted(reads & self.unavailable))
        return self.run(list(self.suffix), env)

    def dropped(self):
        head = ast.unparse(self.loop).splitlines()[0]
        return {"loop_construct_replaced_by_rule": "%s (line %d)" % (head, self.loop.lineno),
                "prefix_statements_skipped": [{"line": l, "text": t, "why": w} for l, t, w in self.skipped]}


# ---------------------------------------------------------------------- instantiation-based proving of quantified invariants
def instantiate(schemas, terms):
    """schemas: list of (arity, f) with f(*index terms) -> z3 Bool; every schema is instantiated at every tuple of `terms`"""
    import itertools
    out = []
    for arity, f in schemas:
        for tup in itertools.product(terms, repeat=arity):
            out.append(f(*tup))
    return out
