"""Deciding rational-function identities that the SMT solvers' non-linear engines time out on.

prove_identity(goal, hyps):   goal is  lhs == rhs  over reals with + - * / ite.
  1. case split on every ite condition (each case adds the literal to the hypotheses);
  2. eliminate hypotheses of the form  x == t  (x a constant not in t) by substitution;
  3. write both sides as one fraction N/D (D a product of the denominators that occur);
  4. obligations handed to z3/cvc5:  every denominator factor != 0  under the hypotheses, and
     N_l * D_r - N_r * D_l == 0  after z3's sum-of-monomials normalisation (a syntactic zero) or, failing
     that, by the solver.
Every step is a validity-preserving rewriting; the deciding steps are still solver calls.
"""
import itertools, time
import z3
from . import core, smt


def _ites(t, acc, seen):
    stack = [t]
    while stack:
        x = stack.pop()
        if x.get_id() in seen:
            continue
        seen.add(x.get_id())
        if z3.is_app(x) and x.decl().kind() == z3.Z3_OP_ITE:
            c = x.children()[0]
            if all(not c.eq(d) for d in acc):
                acc.append(c)
        stack.extend(x.children())
    return acc


def _frac_multiset(t):
    """robust version of frac for sums: denominators are multisets; common denominator = product of all parts'
    denominators (no attempt to share factors) -- simple and obviously correct"""
    if z3.is_app(t):
        k = t.decl().kind()
        ch = t.children()
        if k in (z3.Z3_OP_ADD, z3.Z3_OP_SUB):
            parts = [_frac_multiset(c) for c in ch]
            if all(not ds for _, ds in parts):
                return t, []
            dens = []
            for _, ds in parts:
                dens += ds
            num = None
            for i, (n, ds) in enumerate(parts):
                term = n
                for j, (_, es) in enumerate(parts):
                    if j != i:
                        for e in es:
                            term = term * e
                if num is None:
                    num = term
                elif k == z3.Z3_OP_ADD:
                    num = num + term
                else:
                    num = num - term
            return num, dens
        if k == z3.Z3_OP_MUL:
            n, dens = None, []
            for c in ch:
                cn, cd = _frac_multiset(c)
                if _is_zero(cn):
                    return z3.RealVal(0), []      # 0 * x = 0 for every real x (z3's total division included)
                n = cn if n is None else n * cn
                dens += cd
            return n, dens
        if k == z3.Z3_OP_DIV:
            an, ad = _frac_multiset(ch[0])
            bn, bd = _frac_multiset(ch[1])
            num = an
            for d in bd:
                num = num * d
            return num, ad + [bn]
        if k == z3.Z3_OP_UMINUS:
            n, d = _frac_multiset(ch[0])
            return -n, d
    return t, []


def _is_zero(t):
    t = z3.simplify(t)
    return z3.is_rational_value(t) and t.numerator_as_long() == 0


def _prod(xs):
    r = None
    for x in xs:
        r = x if r is None else r * x
    return r if r is not None else z3.RealVal(1)


def _eliminate_equalities(goal, hyps):
    """substitute hypotheses x == t (x an uninterpreted real constant not occurring in t)"""
    changed = True
    hyps = list(hyps)
    rounds = 0
    while changed and rounds < 20:
        changed = False
        rounds += 1
        for h in hyps:
            if not (z3.is_eq(h) and h.children()[0].sort() == z3.RealSort()):
                continue
            a, b = h.children()
            for x, t in ((a, b), (b, a)):
                if z3.is_const(x) and x.decl().kind() == z3.Z3_OP_UNINTERPRETED and not _occurs(t, x):
                    goal = z3.substitute(goal, (x, t))
                    hyps = [z3.substitute(g, (x, t)) for g in hyps if g is not h]
                    changed = True
                    break
            if changed:
                break
    return goal, hyps


def _occurs(t, x):
    xid = x.get_id()
    stack, seen = [t], set()
    while stack:
        y = stack.pop()
        if y.get_id() == xid:
            return True
        if y.get_id() in seen:
            continue
        seen.add(y.get_id())
        stack.extend(y.children())
    return False


def _witness(poly, hyps, tries=4):
    """a model of the hypotheses at which poly != 0, or None"""
    sol = z3.Solver()
    sol.set("timeout", 3000)
    sol.add(*hyps)
    for k in range(tries):
        if sol.check() != z3.sat:
            return None
        m = sol.model()
        v = m.eval(poly, model_completion=True)
        v = z3.simplify(v)
        if z3.is_rational_value(v) or z3.is_algebraic_value(v):
            if not (z3.is_rational_value(v) and v.numerator_as_long() == 0):
                return smt.model_to_dict(m), str(v)
        # another model: move one real variable away from its current value
        moved = False
        for d in m.decls():
            if d.arity() == 0 and d.range() == z3.RealSort():
                sol.add(d() != m[d])
                moved = True
        if not moved:
            return None
    return None


def prove_identity(goal, hyps, tier="quick", name="", timeout_ms=None):
    t0 = time.time()
    if not z3.is_eq(goal):
        return core.unknown("ratid", "not an equation")
    conds = _ites(goal, [], set())
    if len(conds) > 6:
        return core.unknown("ratid", "too many ite conditions (%d)" % len(conds))
    n_cases = 0
    detail = []
    for bits in itertools.product([True, False], repeat=len(conds)):
        lits = [c if b else z3.Not(c) for c, b in zip(conds, bits)]
        if lits and smt.satisfiable(list(hyps) + lits, 3000) == z3.unsat:
            continue
        n_cases += 1
        g = goal
        for c, b in zip(conds, bits):
            g = z3.substitute(g, (c, z3.BoolVal(b)))
        g = z3.simplify(g, som=False)
        if z3.is_true(g):
            continue
        if not z3.is_eq(g):
            r = smt.prove(g, list(hyps) + lits, tier=tier, name=name, timeout_ms=timeout_ms)
            if r.status != core.PROVED:
                r.detail = "case %s: %s" % (lits, r.detail)
                return r
            continue
        # denominators are examined BEFORE hypotheses of the form x == t are substituted: substituting T := 0 would let
        # `0 * (w / T)` collapse to 0 and hide a division by zero that float64 turns into nan
        h2 = list(hyps) + lits
        l, r_ = g.children()
        ln, ld = _frac_multiset(l)
        rn, rd = _frac_multiset(r_)
        dens = []
        for d in ld + rd:
            if all(not d.eq(e) for e in dens):
                dens.append(d)
        for d in dens:
            ds = z3.simplify(d)
            if z3.is_rational_value(ds):
                if ds.numerator_as_long() == 0:
                    if smt.satisfiable(h2, 3000) == z3.sat:
                        return core.Result(core.REFUTED, "z3", "division by literal zero in the reachable case %s: the value is "
                                           "undefined (inf/nan in float64) where the contract specifies a number" % [str(l) for l in lits],
                                           time_s=time.time() - t0)
                    return core.unknown("ratid", "literal zero denominator in case %s" % lits)
                continue
            rr = smt.prove(d != 0, h2, tier=tier, name=name + ":den", timeout_ms=timeout_ms or 5000)
            if rr.status != core.PROVED:
                rz = smt.prove(d == 0, h2, tier=tier, name=name + ":den0", timeout_ms=3000, fallback=False)
                if rz.status == core.PROVED and smt.satisfiable(h2, 3000) == z3.sat:
                    # the expression divides by zero on a reachable case: its value is not a real number there
                    return core.Result(core.REFUTED, "z3", "division by zero (denominator %s == 0) in the reachable case %s: "
                                       "the value is undefined (inf/nan in float64) where the contract specifies a number"
                                       % (d, [str(l) for l in lits]), model=rr.model, time_s=time.time() - t0)
                rr.status = core.UNKNOWN
                rr.detail = "cannot show denominator %s != 0 in case %s: %s" % (d, lits, rr.detail)
                return rr
        poly = ln * _prod(rd) - rn * _prod(ld)
        pg, h2 = _eliminate_equalities(poly == 0, h2)
        poly = pg.children()[0] if z3.is_eq(pg) else poly
        ps = z3.simplify(poly, som=True)
        if z3.is_rational_value(ps) and ps.numerator_as_long() == 0:
            detail.append("case %s: polynomial identity by normalisation" % (lits,))
            continue
        # a polynomial that does not normalise to zero is usually NOT identically zero: look for a witness by evaluating it on
        # models of the hypotheses alone (cheap), before asking the non-linear solver for validity
        wit = _witness(ps, h2)
        if wit is not None:
            return core.Result(core.REFUTED, "z3", "case %s: cleared-denominator identity fails at a point satisfying the hypotheses (value %s)" % ([str(l) for l in lits], wit[1]),
                               model=wit[0], time_s=time.time() - t0)
        rr = smt.prove(ps == 0, h2, tier=tier, name=name + ":poly", timeout_ms=timeout_ms)
        if rr.status != core.PROVED:
            rr.detail = "case %s: cleared-denominator identity: %s" % (lits, rr.detail)
            return rr
        detail.append("case %s: polynomial identity by solver" % (lits,))
    return core.Result(core.PROVED, "z3", "rational identity over %d cases (%s)" % (n_cases, "; ".join(detail)[:500]),
                       time_s=time.time() - t0)
