"""Session / obligation bookkeeping, verdicts, evidence, replay files, known findings.

Exit codes (DESIGN.md section 4):
  0  every obligation discharged, every bounded stand-in passed (KNOWN-FINDING lines allowed)
  1  violation: an obligation was refuted (line `VIOLATION property=<id> replay=<path>`)
  2  undecided (solver unknown/timeout, construct outside an engine's subset)
  3  checker crash or engine self-check failed (cross-check mismatch, vacuous canary)
Codes 2 and 3 never print a VIOLATION line.
"""
import json, os, sys, time, traceback, hashlib, subprocess

HERE = os.path.dirname(os.path.dirname(os.path.abspath(__file__)))
REPO = os.environ.get("CIJ_REPO", "/repo")

PROVED, REFUTED, UNKNOWN, ERROR = "proved", "refuted", "unknown", "error"


class Result:
    """Outcome of one obligation."""

    def __init__(self, status, backend="", detail="", model=None, time_s=0.0, witness_id=None,
                 replay=None, sample=None):
        self.status = status          # proved / refuted / unknown / error
        self.backend = backend        # z3 / cvc5 / finite / frames / sympy / lean ...
        self.detail = detail          # verifier output (text)
        self.model = model            # counter-model (json-able) or None
        self.time_s = time_s
        self.witness_id = witness_id  # stable identification of the failing case (for known findings)
        self.replay = replay          # dict from a native replay: {"reproduced": bool, ...}
        self.sample = sample          # text of the obligation (for evidence samples)


def proved(backend="z3", detail="", **kw):
    return Result(PROVED, backend, detail, **kw)


def refuted(backend="z3", detail="", **kw):
    return Result(REFUTED, backend, detail, **kw)


def unknown(backend="z3", detail="", **kw):
    return Result(UNKNOWN, backend, detail, **kw)


class EngineUnsound(Exception):
    """engine self-check failed (cross-check against CPython / real numpy, vacuous canary)"""


class OutsideSubset(Exception):
    """construct outside the engine's subset -> undecided, never a verdict"""


def _jsonable(x):
    try:
        json.dumps(x)
        return x
    except Exception:
        if isinstance(x, dict):
            return {str(k): _jsonable(v) for k, v in x.items()}
        if isinstance(x, (list, tuple, set)):
            return [_jsonable(v) for v in x]
        return repr(x)


def load_known_findings():
    p = os.path.join(HERE, "known_findings.json")
    if not os.path.exists(p):
        return []
    with open(p) as fp:
        return json.load(fp)["findings"]


def _memtrace(name):
    """development aid: VERIF_MEMTRACE=1 prints the resident set size after every obligation (stderr)"""
    if os.environ.get("VERIF_MEMTRACE"):
        try:
            rss = int(open("/proc/self/statm").read().split()[1]) * 4096 / 1e9
            sys.stderr.write("MEMTRACE %-70s rss %.2f GB  t=%.0f\n" % (name[:70], rss, time.time() % 100000))
        except OSError:
            pass


class Session:
    def __init__(self, pid, tier="quick", seed=0, level="proof"):
        self.pid, self.tier, self.seed, self.level = pid, tier, seed, level
        self.t0 = time.time()
        self.obligations = []      # (name, Result, meta)
        self.canaries = []         # (name, Result)
        self.bounded = []          # dicts
        self.crosschecks = []      # dicts
        self.functions = []        # functions under contract
        self.assumptions = []
        self.not_decided = []
        self.trusted = []
        self.python_semantics = []
        self.samples = []
        self.known_printed = []
        self.violations = []       # (name, replay path, suffix)
        self.undecided = []
        self.crashed = []
        self.canary_failures = []
        self.notes = {}
        self.min_obligations = 1
        self.required_names = []
        self.known = [k for k in load_known_findings() if k.get("property") == pid]
        import shutil
        if "--replay" not in sys.argv:
            shutil.rmtree(os.path.join(HERE, "replays", pid), ignore_errors=True)   # replay files belong to one run

    # ------------------------------------------------------------------ registration helpers
    def under_contract(self, *names):
        for n in names:
            if n not in self.functions:
                self.functions.append(n)

    def assume(self, *ids):
        for i in ids:
            if i not in self.assumptions:
                self.assumptions.append(i)

    def undecided_part(self, text):
        if text not in self.not_decided:
            self.not_decided.append(text)

    def trust(self, *xs):
        for x in xs:
            if x not in self.trusted:
                self.trusted.append(x)

    # ------------------------------------------------------------------ running obligations
    def _run(self, name, fn):
        t = time.time()
        try:
            r = fn()
            if not isinstance(r, Result):
                raise TypeError("obligation %s returned %r" % (name, r))
        except OutsideSubset as e:
            r = Result(UNKNOWN, "engine", "outside subset: %s" % e)
        except EngineUnsound as e:
            r = Result(ERROR, "engine", "engine self-check failed: %s" % e)
        except Exception as e:
            if type(e).__name__ == "ShapeObligation":
                # broadcasting / axis / length obligation of the array model failed: real numpy raises (or mis-shapes) for generic sizes
                r = Result(REFUTED, "symnp", "shape obligation failed: %s\n%s" % (e, traceback.format_exc()[-900:]), witness_id="shape:%s" % str(e)[:60])
                r.time_s = time.time() - t
                return r
            tb = traceback.extract_tb(e.__traceback__)
            last = tb[-1] if tb else None
            repo_root = os.path.realpath(REPO) + os.sep
            in_repo = any(os.path.realpath(f.filename).startswith(repo_root) for f in tb)
            last_in_verif = last is not None and os.path.realpath(last.filename).startswith(os.path.realpath(HERE) + os.sep)
            harness_like = isinstance(e, (AttributeError, KeyError, TypeError, NameError, ImportError, IndexError, AssertionError, NotImplementedError))
            if in_repo and not last_in_verif and not harness_like:
                # the code under verification (or a library it called) raised on an input meeting the contract's precondition
                r = Result(REFUTED, "engine", "the real code raised %s on an input meeting the precondition:\n%s" % (type(e).__name__, traceback.format_exc()[-1200:]),
                           witness_id="raises:%s:%s" % (last.name if last else "?", type(e).__name__), replay={"reproduced": True, "raised": repr(e)[:300]})
                r.time_s = time.time() - t
                return r
            getattr_fallback = isinstance(e, AttributeError) and last is not None and last.name == "__getattr__"
            if in_repo and harness_like and (getattr_fallback or not (last is not None and (last.line or "").lstrip().startswith("raise")
                                                                      and os.path.realpath(last.filename).startswith(repo_root))):
                # the code under verification used a stub / symbolic value in a way the contract stubs do not model
                # (missing attribute, unsupported argument type ...): outside the engine's subset -> undecided, not a verdict.
                # An AttributeError re-raised by a __getattr__ fallback hides such an error raised inside a property.
                r = Result(UNKNOWN, "engine", "outside subset: the code used a contract stub in a way it does not model (%s: %s)\n%s"
                           % (type(e).__name__, str(e)[:200], traceback.format_exc()[-700:]))
                r.time_s = time.time() - t
                return r
            if last is not None and os.path.realpath(last.filename).startswith(os.path.realpath(REPO) + os.sep) \
                    and (last.line or "").lstrip().startswith("raise"):
                # an explicit `raise` in the code under verification on inputs satisfying the contract's
                # precondition: the implicit obligation "returns normally" is refuted
                r = Result(REFUTED, "engine", "real code raised on a symbolic run meeting the precondition:\n"
                           + traceback.format_exc()[-1500:], witness_id="raises:%s:%s" % (last.name, type(e).__name__))
            else:
                r = Result(ERROR, "engine", traceback.format_exc())
        if not r.time_s:
            r.time_s = time.time() - t
        return r

    def oblige(self, name, fn, functions=(), kind="deductive", fallback=None):
        """Run one obligation. kind: deductive (unbounded), finite (complete enumeration of a finite
        domain on the real code), frame.

        fallback: () -> {"reproduced": bool, ...}, a native run of the real function against the independent oracle of the same contract.  It is used only when
        the obligation is UNDECIDED on the current source (it left the deductive engine's subset, or the solvers could not discharge a premise): a failing native input
        then refutes the obligation; if the native run
        agrees with the oracle the obligation is recorded as a BOUNDED stand-in for this run (labelled so, never counted as discharged) instead of undecided."""
        self.under_contract(*functions)
        r = self._run(name, fn)
        _memtrace(name)
        if fallback is not None and r.status == UNKNOWN:
            t = time.time()
            try:
                rep = fallback()
            except Exception as e:
                rep = None
                tb = traceback.extract_tb(e.__traceback__)
                inner = tb[-1].filename if tb else ""
                third = ("site-packages" in inner or "/lib/python" in inner) and any(os.path.abspath(fr.filename).startswith(os.path.abspath(REPO) + os.sep) for fr in tb)
                if os.path.abspath(inner).startswith(os.path.abspath(REPO) + os.sep) or third:
                    # the battery feeds legitimate inputs only and catches the refusals it expects itself: an exception raised inside the package (or by a library
                    # called from it) on such an input is a failing input, not a checker problem
                    where = next((fr for fr in reversed(tb) if os.path.abspath(fr.filename).startswith(os.path.abspath(REPO) + os.sep)), tb[-1])
                    rep = {"reproduced": True, "observed": "raises %r at %s:%d (%s) on a legitimate input of the native battery" % (e, os.path.relpath(where.filename, REPO), where.lineno, where.name),
                           "expected": "the value the contract's oracle gives", "traceback": traceback.format_exc()[-600:]}
                else:
                    r.detail += " | bounded fall-back crashed: " + traceback.format_exc()[-400:]
            if isinstance(rep, dict) and rep.get("reproduced"):
                r = Result(REFUTED, "runtime-contract", "the obligation is undecided on this source (%s); its bounded fall-back (native run against the contract's oracle) fails: %s"
                           % (r.detail[:300], json.dumps(_jsonable(rep))[:1500]), witness_id="fallback:" + name, replay=rep, time_s=time.time() - t)
            elif isinstance(rep, dict):
                self.bounded.append({"name": name + " [fall-back]", "label": "bounded", "bound": "deductive obligation undecided on this source (%s); native runs of the real function "
                                     "against the contract's oracle instead: %s" % (r.detail[:200], str(rep.get("note", rep))[:300]),
                                     "evaluations": int(rep.get("evaluations", 1)), "distinct_nontrivial": int(rep.get("evaluations", 1)), "failures": 0})
                r = Result("bounded", "runtime-contract", "not discharged: bounded fall-back only | " + r.detail[:400], time_s=time.time() - t)
        self.obligations.append((name, r, {"kind": kind, "functions": list(functions)}))
        if r.sample and len(self.samples) < 6:
            self.samples.append({"obligation": name, "text": r.sample[:1500]})
        if r.status == REFUTED:
            self._refuted(name, r)
        elif r.status == UNKNOWN:
            self.undecided.append((name, r.detail[:400]))
        elif r.status == ERROR:
            self.crashed.append((name, r.detail[-1500:]))
        return r

    @staticmethod
    def _fkey(f):
        """module.function key of a `functions under contract` entry (class and free text dropped)"""
        f = f.split(" ")[0].replace("cij/", "").replace("/", ".").replace(".py", "")
        parts = [p for p in f.split(".") if p and p != "*"]
        return (parts[0], parts[-1]) if parts else ("", "")

    def _covered_by_bounded(self, name):
        """an obligation left undecided because the source left the engine's subset is covered when a bounded stand-in of this run exercised the same function
        of the real code against the contract's oracle and passed"""
        meta = next((m for n, r, m in self.obligations if n == name), None)
        if not meta:
            return None
        keys = {self._fkey(f) for f in meta.get("functions", [])}
        for b in self.bounded:
            if b.get("failures"):
                continue
            bk = {self._fkey(f) for f in b.get("functions", [])}
            mods = {q[0] for q in bk}
            if ("calculator", "Calculator") in bk:
                # a whole-calculation stand-in (Calculator built and compared with an independent recomputation) exercises every module of the core
                mods |= {"calculator", "full_modulus", "qha_adapter", "tasks", "mode_gamma", "nonshear", "shear", "elast_dat", "qha_input", "fill", "config", "results_writer"}
            if any(k[0] in mods for k in keys):
                return b["name"]
        return None

    def canary(self, name, fn):
        """A deliberately wrong variant of an obligation: must be REFUTED, otherwise the obligation
        it shadows is vacuous (exit 3)."""
        r = self._run(name, fn)
        self.canaries.append((name, r))
        if r.status == UNKNOWN and r.detail.startswith("outside subset"):
            # the code left the engine's subset: the canary says nothing; the obligation it shadows left the subset as well and is decided on its own
            # (undecided, or its bounded fall-back)
            self.notes.setdefault("canaries_not_applicable", []).append([name, r.detail[:200]])
        elif r.status == UNKNOWN:
            # an undecided canary says nothing about vacuity (only a canary that is PROVED does)
            self.notes.setdefault("canaries_undecided", []).append([name, r.detail[:200]])
        elif r.status != REFUTED:
            self.canary_failures.append((name, "canary not refuted (%s): obligation may be vacuous. %s"
                                         % (r.status, r.detail[-600:])))
        return r

    def crosscheck(self, name, n_cases, mismatches, detail=""):
        self.crosschecks.append({"name": name, "cases": n_cases, "mismatches": len(mismatches),
                                 "detail": detail})
        if mismatches:
            self.crashed.append((name, "engine cross-check mismatch: %r" % (mismatches[:3],)))

    def bounded_standin(self, name, bound, evaluations, distinct, failures, functions=(), witness_ids=None):
        """Record a bounded stand-in (run-time contracts on the real function). failures: list of dicts
        {"witness_id":..., "input":..., "observed":..., "expected":...}; never counted as discharged."""
        self.under_contract(*functions)
        _memtrace(name)
        self.bounded.append({"name": name, "label": "bounded", "bound": bound, "evaluations": evaluations,
                             "distinct_nontrivial": distinct, "failures": len(failures), "functions": list(functions)})
        for f in failures:
            r = Result(REFUTED, "runtime-contract", json.dumps(_jsonable(f))[:3000], model=_jsonable(f.get("input")),
                       witness_id=f.get("witness_id"), replay={"reproduced": True, **_jsonable(f)})
            self._refuted(name, r)

    # ------------------------------------------------------------------ violations / known findings
    def _refuted(self, name, r):
        for k in self.known:
            if k.get("status") == "known" and k.get("obligation") == name and \
                    (k.get("witness_id") in (None, r.witness_id)):
                line = "KNOWN-FINDING: property=%s %s" % (self.pid, k["what"])
                if line not in self.known_printed:
                    self.known_printed.append(line)
                    print(line)
                return
        d = os.path.join(HERE, "replays", self.pid)
        os.makedirs(d, exist_ok=True)
        safe = "".join(c if c.isalnum() or c in "._-" else "_" for c in name)
        if r.witness_id:
            safe += "-" + hashlib.sha1(str(r.witness_id).encode()).hexdigest()[:8]
        path = os.path.join(d, safe + ".json")
        reproduced = bool(r.replay and r.replay.get("reproduced"))
        with open(path, "w") as fp:
            json.dump({"property": self.pid, "failed_obligation": name, "backend": r.backend,
                       "verifier_output": r.detail, "model": _jsonable(r.model),
                       "witness_id": r.witness_id, "native_replay": _jsonable(r.replay),
                       "failing_input_found": reproduced,
                       "rerun": "./check %s --replay %s" % (self.pid, os.path.relpath(path, HERE))},
                      fp, indent=1)
        self.violations.append((name, path, "" if reproduced else " no-failing-input-found"))

    # ------------------------------------------------------------------ finishing
    def finish(self, explanation="", rule="", checker_cmd=None):
        n_ob = len(self.obligations)
        discharged = sum(1 for _, r, _ in self.obligations if r.status == PROVED)
        names = [n for n, _, _ in self.obligations]
        missing = [n for n in self.required_names if n not in names]
        if n_ob < self.min_obligations or missing:
            self.undecided.append(("vacuity-guard", "obligations=%d (min %d); missing required: %s"
                                   % (n_ob, self.min_obligations, missing)))
        by_backend = {}
        solver_time = 0.0
        for _, r, m in self.obligations:
            by_backend[r.backend] = by_backend.get(r.backend, 0) + 1
            solver_time += r.time_s
        # deductive obligations the current source put outside the engines' subset, but whose function a passing bounded stand-in of this run exercised
        covered, still = [], []
        for n, d in self.undecided:
            b = self._covered_by_bounded(n) if "outside subset" in d else None
            (covered if b else still).append((n, d) if not b else (n, b, d))
        self.undecided = still
        canaries_refuted = sum(1 for _, r in self.canaries if r.status == REFUTED)
        b_eval = sum(b["evaluations"] for b in self.bounded)
        b_dist = sum(b["distinct_nontrivial"] for b in self.bounded)
        if self.crashed:
            code = 3
        elif self.violations:
            code = 1
        elif self.canary_failures:
            code = 3
        elif self.undecided:
            code = 2
        else:
            code = 0
        samples = list(self.samples)
        if not samples:
            samples = [{"obligation": n, "status": r.status, "backend": r.backend} for n, r, _ in self.obligations[:5]]
        for b in self.bounded[:4]:
            samples.append({"bounded_stand_in": b["name"], "cases_generated_as": b["bound"], "evaluations": b["evaluations"]})
        cov = {
            "obligations": n_ob,
            "discharged": discharged,
            "checker_cmd": checker_cmd or ("./check %s --tier %s" % (self.pid, self.tier)),
            "trusted_base": self.trusted,
            "evaluations": max(1, n_ob + len(self.canaries) + b_eval + sum(c["cases"] for c in self.crosschecks)),
            "distinct_nontrivial": max(2, n_ob + b_dist) if n_ob + b_dist >= 2 else n_ob + b_dist,
            "rule": rule or ("one case per named proof obligation generated from /repo's current source "
                             "(distinct by name, non-trivial = not a canary) plus the distinct non-trivial "
                             "inputs of the bounded stand-ins"),
            "samples": samples,
            "explanation": explanation,
            "functions_under_contract": self.functions,
            "obligations_by_backend": by_backend,
            "obligation_names": names,
            "solver_time_s": round(solver_time, 3),
            "canaries_refuted": canaries_refuted,
            "canaries_total": len(self.canaries),
            "engine_crosschecks": self.crosschecks,
            "bounded": self.bounded,
            "not_decided": self.not_decided,
            "known_findings_printed": self.known_printed,
            "python_semantics_assumed": self.python_semantics,
            "undecided": [list(u) for u in self.undecided],
            "undecided_but_covered_by_bounded_stand_in": [list(u) for u in covered],
            "crashed": [list(u) for u in self.crashed + self.canary_failures],
            "exit_code": code,
        }
        cov.update(self.notes)
        ev = {"property_id": self.pid, "tier": self.tier, "seed": int(self.seed), "level": self.level,
              "coverage": cov, "assumptions": self.assumptions, "wall_s": round(time.time() - self.t0, 3),
              "violations": len(self.violations)}
        evdir = os.environ.get("VERIF_EVIDENCE_DIR") or os.path.join(HERE, "evidence")   # development runs against a mutated copy write elsewhere
        os.makedirs(evdir, exist_ok=True)
        with open(os.path.join(evdir, self.pid + ".json"), "w") as fp:
            json.dump(_jsonable(ev), fp, indent=1)
        print("%s tier=%s: obligations=%d discharged=%d canaries=%d/%d bounded_evals=%d crosschecks=%d wall=%.1fs"
              % (self.pid, self.tier, n_ob, discharged, canaries_refuted, len(self.canaries), b_eval,
                 len(self.crosschecks), time.time() - self.t0))
        for n, d in self.crashed + self.canary_failures:
            print("CHECKER-ERROR %s: %s" % (n, d))
        for n, d in self.undecided:
            print("UNDECIDED %s: %s" % (n, d))
        for n, b, d in covered:
            print("NOT-DISCHARGED %s: the source left the deductive engine's subset (%s); covered for this run by the bounded stand-in %s" % (n, d[:160], b))
        if code == 1:
            for n, p, suffix in self.violations:
                print("FAILED-OBLIGATION %s" % n)
                print("VIOLATION property=%s replay=%s%s" % (self.pid, p, suffix))
        elif self.violations:
            # never report violations from a run whose engine self-check failed
            for n, p, suffix in self.violations:
                print("UNCONFIRMED-REFUTATION %s (engine self-check failed; see %s)" % (n, p))
        return code


class SubSession:
    """a view of a session that registers only some obligations of another property's obligation list (under this property's name): used where a property's
    lemmas ASSUME a contract that another property's check discharges on the same anchored file -- the assumption is then discharged here as well"""

    def __init__(self, parent, rename, keep):
        self.__dict__["_p"], self.__dict__["_rename"], self.__dict__["_keep"] = parent, rename, keep

    def __getattr__(self, name):
        return getattr(self._p, name)

    def __setattr__(self, name, value):
        if name in ("min_obligations", "required_names"):
            return
        setattr(self._p, name, value)

    def oblige(self, name, fn, functions=(), kind="deductive", fallback=None):
        if not self._keep(name):
            return Result("skipped", "", "")
        return self._p.oblige(self._rename(name), fn, functions, kind, fallback)

    def canary(self, name, fn):
        return Result("skipped", "", "")

    def crosscheck(self, *a, **k):
        return None

    def bounded_standin(self, *a, **k):
        return None

    def undecided_part(self, *a):
        return None

    def run(self, mod):
        """run another property's check as a sub-session.  Obligations it registers before anything goes wrong are kept; a crash in the parts that are not registered
        here (its bounded stand-ins, engine self-checks) on the current source is that property's business, not the parent's: noted, never a checker error of the parent"""
        try:
            mod.run(self)
        except Exception as e:  # noqa: BLE001
            self._p.notes.setdefault("sub_sessions_interrupted", []).append("%s: %s: %s" % (getattr(mod, "__name__", mod), type(e).__name__, str(e)[:200]))
