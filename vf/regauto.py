"""E6 -- regex lemmas over ALL strings: tagged-automata inclusion for the regular expressions the readers use.

The pattern text is parsed by CPython's own parser (re._parser) -- the tree that the real `re` compiles -- and turned into
an epsilon-NFA whose transitions are character sets, group tags "(k" / ")k" and position assertions.  A *parse* of a
string is a run of that automaton; CPython's `re.search` returns one of the parses with the smallest start position
(the assumption A-RE: which one among equal starts is left open here, so a lemma must hold for every parse at that start).
Character sets are evaluated over every Unicode code point (categories through the real `re`), the code points are
partitioned by membership in all sets in play, and inclusion between tagged languages is decided by subset construction
over that finite alphabet -- no length bound.

Subset of regex syntax: literals, sets, categories, `.`, branches, greedy/lazy repeats, capturing / non-capturing groups,
^ $ \\A \\Z without flags.  Anything else raises OutsideSubset (undecided).  Groups inside repeats are refused.
"""
import re, itertools
import numpy
from . import core

try:
    import re._parser as _sp, re._constants as _sc
except ImportError:                                             # python < 3.11
    import sre_parse as _sp, sre_constants as _sc

N = 0x110000
_CAT = {}


def _category(name):
    if name not in _CAT:
        pat = {"DIGIT": r"\d", "SPACE": r"\s", "WORD": r"\w"}[name]
        rx = re.compile(pat)
        a = numpy.zeros(N, dtype=bool)
        for cp in range(N):
            if rx.match(chr(cp)):
                a[cp] = True
        _CAT[name] = a
    return _CAT[name]


def _set_of(op, av):
    a = numpy.zeros(N, dtype=bool)
    if op is _sc.LITERAL:
        a[av] = True
    elif op is _sc.NOT_LITERAL:
        a[:] = True
        a[av] = False
    elif op is _sc.ANY:
        a[:] = True
        a[10] = False
    elif op is _sc.RANGE:
        a[av[0]:av[1] + 1] = True
    elif op is _sc.CATEGORY:
        nm = str(av).replace("CATEGORY_", "")
        neg = nm.startswith("NOT_")
        nm = nm[4:] if neg else nm
        if nm not in ("DIGIT", "SPACE", "WORD"):
            raise core.OutsideSubset("regex category %s" % av)
        a = _category(nm).copy()
        if neg:
            a = ~a
    elif op is _sc.IN:
        items = list(av)
        neg = bool(items) and items[0][0] is _sc.NEGATE
        if neg:
            items = items[1:]
        for o, v in items:
            a |= _set_of(o, v)
        if neg:
            a = ~a
    else:
        raise core.OutsideSubset("regex set item %s" % op)
    return a


def _nullable(items):
    for op, av in items:
        if op in (_sc.LITERAL, _sc.NOT_LITERAL, _sc.ANY, _sc.IN):
            return False
        if op in (_sc.MAX_REPEAT, _sc.MIN_REPEAT):
            if av[0] > 0 and not _nullable(list(av[2])):
                return False
        elif op is _sc.SUBPATTERN:
            if not _nullable(list(av[3])):
                return False
        elif op is _sc.BRANCH:
            if not any(_nullable(list(alt)) for alt in av[1]):
                return False
        elif op is _sc.AT:
            continue
        else:
            raise core.OutsideSubset("regex construct %s" % op)
    return True


class NFA:
    """transitions: state -> [(kind, payload, target)], kind in e (epsilon) / c (set index) / t (tag) / a (assertion)"""

    def __init__(self, ctx):
        self.ctx = ctx
        self.tr = []
        self.start = self.new()
        self.final = None

    def new(self):
        self.tr.append([])
        return len(self.tr) - 1

    def add(self, p, kind, payload, q):
        self.tr[p].append((kind, payload, q))


class Ctx:
    """all automata compared with one another share one context (one partition of the code points)"""

    def __init__(self):
        self.sets = []
        self.keys = {}
        self.classes = None

    def set_id(self, arr):
        if self.classes is not None:
            raise RuntimeError("context already frozen")
        k = arr.tobytes()
        if k not in self.keys:
            self.keys[k] = len(self.sets)
            self.sets.append(arr)
        return self.keys[k]

    # ---- construction
    def compile(self, pattern, mode):
        """mode: 'full' (the pattern consumes the whole string), 'at0' (a match starting at position 0, anything after),
        'any' (a match anywhere)"""
        tree = _sp.parse(pattern)
        if tree.state.flags & ~re.UNICODE:
            raise core.OutsideSubset("regex flags %r" % tree.state.flags)
        n = NFA(self)
        n.pattern, n.mode, n.groups = pattern, mode, tree.state.groups - 1
        allset = self.set_id(numpy.ones(N, dtype=bool))
        s = n.start
        if mode == "any":
            n.add(s, "c", allset, s)
        body0 = n.new()
        n.add(s, "e", None, body0)
        end = self._seq(n, list(tree), body0, False)
        f = n.new()
        n.add(end, "e", None, f)
        if mode in ("at0", "any"):
            n.add(f, "c", allset, f)
        n.final = f
        return n

    def _seq(self, n, items, s, in_loop):
        for op, av in items:
            s = self._item(n, op, av, s, in_loop)
        return s

    def _item(self, n, op, av, s, in_loop):
        if op in (_sc.LITERAL, _sc.NOT_LITERAL, _sc.ANY, _sc.IN):
            q = n.new()
            n.add(s, "c", self.set_id(_set_of(op, av)), q)
            return q
        if op in (_sc.MAX_REPEAT, _sc.MIN_REPEAT) or str(op) == "POSSESSIVE_REPEAT":
            if str(op) == "POSSESSIVE_REPEAT":
                raise core.OutsideSubset("possessive repeat")
            lo, hi, sub = av
            sub = list(sub)
            greedy = op is _sc.MAX_REPEAT
            if hi > 1 and _nullable(sub):
                raise core.OutsideSubset("repeat of a sub-pattern that can match the empty string")
            for _ in range(lo):
                s = self._seq(n, sub, s, in_loop or hi > 1)
            if hi == _sc.MAXREPEAT:
                a, body, out = n.new(), n.new(), n.new()
                n.add(s, "e", None, a)
                for tgt in ((body, out) if greedy else (out, body)):      # transition order = backtracking priority
                    n.add(a, "e", None, tgt)
                b = self._seq(n, sub, body, True)
                n.add(b, "e", None, a)
                return out
            if hi - lo > 64:
                raise core.OutsideSubset("repeat bound %d" % hi)
            out = n.new()
            for _ in range(hi - lo):
                body = n.new()
                for tgt in ((body, out) if greedy else (out, body)):
                    n.add(s, "e", None, tgt)
                s = self._seq(n, sub, body, in_loop or hi > 1)
            n.add(s, "e", None, out)
            return out
        if op is _sc.SUBPATTERN:
            group, add_flags, del_flags, sub = av
            if add_flags or del_flags:
                raise core.OutsideSubset("inline regex flags")
            if group is not None:
                if in_loop:
                    raise core.OutsideSubset("capturing group inside a repeat")
                a = n.new()
                n.add(s, "t", "(%d" % group, a)
                b = self._seq(n, list(sub), a, in_loop)
                c = n.new()
                n.add(b, "t", ")%d" % group, c)
                return c
            return self._seq(n, list(sub), s, in_loop)
        if op is _sc.BRANCH:
            out = n.new()
            for alt in av[1]:
                a = n.new()
                n.add(s, "e", None, a)
                b = self._seq(n, list(alt), a, in_loop)
                n.add(b, "e", None, out)
            return out
        if op is _sc.AT:
            nm = str(av)
            if nm not in ("AT_BEGINNING", "AT_BEGINNING_STRING", "AT_END", "AT_END_STRING"):
                raise core.OutsideSubset("regex assertion %s" % nm)
            q = n.new()
            n.add(s, "a", nm, q)
            return q
        raise core.OutsideSubset("regex construct %s" % op)

    # ---- partition of the code points
    def freeze(self):
        if self.classes is not None:
            return
        nl = numpy.zeros(N, dtype=bool)
        nl[10] = True
        self.nl_set = self.set_id(nl)
        sig = numpy.zeros(N, dtype=object) if len(self.sets) > 62 else numpy.zeros(N, dtype=numpy.int64)
        for i, a in enumerate(self.sets):
            sig = sig + (a.astype(numpy.int64) << i if len(self.sets) <= 62 else numpy.array([int(x) << i for x in a], dtype=object))
        uniq, first, inv = numpy.unique(sig, return_index=True, return_inverse=True)
        self.nclasses = len(uniq)
        self.rep = []
        for c in range(self.nclasses):
            members = numpy.nonzero(inv == c)[0]
            nice = [m for m in members[:400] if 33 <= m < 127] or [m for m in members[:400] if m in (32, 10, 9)] or [members[0]]
            self.rep.append(chr(int(nice[0])))
        self.classes = [frozenset(int(c) for c in numpy.unique(inv[a])) for a in self.sets]
        self.nl_class = next(iter(self.classes[self.nl_set]))

    # ---- macro-step view: (state, consumed_any, endmode) --(tag sequence, class)--> ...
    def macro(self, n, erase=False):
        self.freeze()
        return Macro(self, n, erase)


class Macro:
    def __init__(self, ctx, n, erase):
        self.ctx, self.n, self.erase = ctx, n, erase
        self.start = (n.start, False, 0)
        self._steps = {}
        self._fin = {}

    def _closure(self, st):
        """all (state, tagseq) reachable through epsilon / tag / assertion transitions"""
        out = {}
        work = [(st, ())]
        while work:
            cur, tags = work.pop()
            if (cur, tags) in out:
                continue
            out[(cur, tags)] = True
            q, consumed, em = cur
            for kind, payload, tgt in self.n.tr[q]:
                if kind == "e":
                    work.append(((tgt, consumed, em), tags))
                elif kind == "t":
                    work.append(((tgt, consumed, em), tags if self.erase else tags + (payload,)))
                elif kind == "a":
                    if payload in ("AT_BEGINNING", "AT_BEGINNING_STRING"):
                        if not consumed:
                            work.append(((tgt, consumed, em), tags))
                    elif payload == "AT_END_STRING":
                        if em in (0, 1):
                            work.append(((tgt, consumed, 1), tags))
                    elif payload == "AT_END":
                        if em == 0:
                            work.append(((tgt, consumed, 1), tags))
                            work.append(((tgt, consumed, 2), tags))
                        else:
                            work.append(((tgt, consumed, em), tags))
        return list(out)

    def steps(self, st):
        """[(tagseq, class id, next state)]"""
        if st not in self._steps:
            res = []
            for (cur, tags) in self._closure(st):
                q, consumed, em = cur
                if em == 1:
                    continue
                for kind, payload, tgt in self.n.tr[q]:
                    if kind != "c":
                        continue
                    for c in self.ctx.classes[payload]:
                        if em == 2:
                            if c != self.ctx.nl_class:
                                continue
                            res.append((tags, c, (tgt, True, 1)))
                        else:
                            res.append((tags, c, (tgt, True, 0)))
            self._steps[st] = res
        return self._steps[st]

    def finals(self, st):
        """tag sequences with which the automaton can accept from st without consuming anything"""
        if st not in self._fin:
            self._fin[st] = {tags for (cur, tags) in self._closure(st) if cur[0] == self.n.final and cur[2] in (0, 1)}
        return self._fin[st]


def _witness(ctx, path, final_tags):
    s, marked = "", ""
    for tags, c in path:
        marked += "".join("<%s>" % t for t in tags) + ctx.rep[c]
        s += ctx.rep[c]
    marked += "".join("<%s>" % t for t in final_tags)
    return s, marked


def included(ctx, A, B, erase=False, restrict=None):
    """L(A) (restricted to strings whose tag-free projection is in L(restrict)) is a subset of L(B), as tagged languages
    (tag-free when erase).  Returns (True, states explored) or (False, (plain string, marked string))."""
    a, b = ctx.macro(A, erase), ctx.macro(B, erase)
    r = ctx.macro(restrict, True) if restrict is not None else None
    start = (a.start, frozenset([b.start]), frozenset([r.start]) if r else None)
    seen = {start: None}
    work = [start]
    while work:
        cur = work.pop()
        sa, sb, sr = cur
        fa = a.finals(sa)
        if fa and (r is None or any(r.finals(x) for x in sr)):
            fb = set()
            for x in sb:
                fb |= b.finals(x)
            for tags in fa:
                if tags not in fb:
                    path = []
                    k = cur
                    while seen[k] is not None:
                        k, letter = seen[k]
                        path.append(letter)
                    return False, _witness(ctx, list(reversed(path)), tags)
        for tags, c, nxt in a.steps(sa):
            nb = frozenset(t3 for x in sb for (t2, c2, t3) in b.steps(x) if c2 == c and t2 == tags)
            nr = None
            if r is not None:
                nr = frozenset(t3 for x in sr for (t2, c2, t3) in r.steps(x) if c2 == c)
                if not nr:
                    continue
            key = (nxt, nb, nr)
            if key not in seen:
                seen[key] = (cur, (tags, c))
                work.append(key)
    return True, len(seen)


def unambiguous(ctx, A):
    """no string has two parses of A with different tag placement.  Returns (True, n) or (False, (string, marked))."""
    a = ctx.macro(A)
    start = (a.start, a.start, False)
    seen = {start: None}
    work = [start]
    while work:
        cur = work.pop()
        p, q, diff = cur
        for t1 in a.finals(p):
            for t2 in a.finals(q):
                if diff or t1 != t2:
                    path = []
                    k = cur
                    while seen[k] is not None:
                        k, letter = seen[k]
                        path.append(letter)
                    return False, _witness(ctx, list(reversed(path)), t1)
        for (t1, c1, n1) in a.steps(p):
            for (t2, c2, n2) in a.steps(q):
                if c1 != c2:
                    continue
                key = (n1, n2, diff or t1 != t2)
                if key not in seen:
                    seen[key] = (cur, (t1, c1))
                    work.append(key)
    return True, len(seen)


def parses(ctx, A, s):
    """all tag placements of A on the concrete string s (cross-check against CPython): set of tuples ((tag, position), ...)"""
    ctx.freeze()
    a = ctx.macro(A)
    cls = []
    for ch in s:
        sig = [i for i, arr in enumerate(ctx.sets) if arr[ord(ch)]]
        c = None
        for k in range(ctx.nclasses):
            if all((k in ctx.classes[i]) == (i in sig) for i in range(len(ctx.sets))):
                c = k
                break
        cls.append(c)
    cur = {(a.start, ())}
    for pos, c in enumerate(cls):
        nxt = set()
        for st, placed in cur:
            for tags, c2, n2 in a.steps(st):
                if c2 == c:
                    nxt.add((n2, placed + tuple((t, pos) for t in tags)))
        cur = nxt
    out = set()
    for st, placed in cur:
        for tags in a.finals(st):
            out.add(placed + tuple((t, len(s)) for t in tags))
    return out


class Ordered:
    """backtracking-priority view of an 'at0' automaton: the ordered closure of a thread (transition order = priority)"""

    def __init__(self, ctx, n):
        ctx.freeze()
        self.ctx, self.n = ctx, n
        self._ev = {}

    def events(self, st):
        """ordered events reachable from thread state st without consuming: ('c', set id, target state, tags, endmode) and
        ('final', tags, endmode)"""
        if st in self._ev:
            return self._ev[st]
        out, seen = [], set()

        def dfs(cur, tags):
            if cur in seen:
                return
            seen.add(cur)
            q, consumed, em = cur
            if q == self.n.final:
                out.append(("final", tags, em))
            for kind, payload, tgt in self.n.tr[q]:
                if kind == "c":
                    out.append(("c", payload, tgt, tags, em))
                elif kind == "e":
                    dfs((tgt, consumed, em), tags)
                elif kind == "t":
                    dfs((tgt, consumed, em), tags + (payload,))
                elif kind == "a":
                    if payload in ("AT_BEGINNING", "AT_BEGINNING_STRING"):
                        if not consumed:
                            dfs((tgt, consumed, em), tags)
                    elif payload == "AT_END_STRING":
                        if em in (0, 1):
                            dfs((tgt, consumed, 1), tags)
                    elif payload == "AT_END":
                        if em == 0:
                            # the two readings of `$` (end of string / before a final newline) are alternative futures,
                            # not priorities: at most one of the two threads survives the rest of the string
                            dfs((tgt, consumed, 1), tags)
                            dfs((tgt, consumed, 2), tags)
                        else:
                            dfs((tgt, consumed, em), tags)
        dfs(st, ())
        self._ev[st] = out
        return out

    def step(self, threads, c, ref_tags):
        """threads: ordered tuple of (state, disagree).  Consume class c; ref_tags = the tag sequence the reference parse
        emits just before this character (None: no reference).  Returns the new ordered tuple.

        A thread's events are its alternatives in priority order.  Reaching the end of the pattern unconditionally
        (endmode 0) is the alternative "stop here": it beats every later alternative and every lower-priority thread, and is
        kept as a thread sitting in the final state (whose any-character loop carries it to the end of the string)."""
        new, have = [], set()
        fin = (self.n.final, True, 0)
        for st, dis in threads:
            for ev in self.events(st):
                if ev[0] == "final":
                    if ev[2] == 0:
                        if fin not in have:
                            new.append((fin, dis or (ref_tags is not None and ev[1] != ref_tags)))
                        return tuple(new)
                    continue
                _, setid, tgt, tags, em = ev
                if em == 1 or c not in self.ctx.classes[setid] or (em == 2 and c != self.ctx.nl_class):
                    continue
                nst = (tgt, True, 1 if em == 2 else 0)
                if nst in have:
                    continue
                have.add(nst)
                new.append((nst, dis or (ref_tags is not None and tags != ref_tags)))
        return tuple(new)

    def start(self):
        return (((self.n.start, False, 0), False),)

    def winner_at_end(self, threads, ref_tags):
        """(found, disagree) for the highest-priority thread that accepts when the string ends here"""
        for st, dis in threads:
            for ev in self.events(st):
                if ev[0] == "final" and ev[2] in (0, 1):
                    return True, dis or (ref_tags is not None and ev[1] != ref_tags)
        return False, None


def winner_agrees(ctx, R0, Sp):
    """for every string s of the specification language, the parse CPython's backtracking matcher returns for R0 at
    position 0 (the highest-priority successful path) places the groups where Sp places them.
    Returns (True, states) or (False, (string, explanation))."""
    o = Ordered(ctx, R0)
    sp = ctx.macro(Sp)
    start = (sp.start, o.start())
    seen = {start: None}
    work = [start]

    def word(k):
        path = []
        while seen[k] is not None:
            k, letter = seen[k]
            path.append(letter)
        return list(reversed(path))
    while work:
        cur = work.pop()
        sst, threads = cur
        for ftags in sp.finals(sst):
            found, dis = o.winner_at_end(threads, ftags)
            if not found or dis:
                s, marked = _witness(ctx, word(cur), ftags)
                return False, (s, "specification parse %r; the pattern %s" % (marked, "does not match at position 0" if not found else
                                                                          "matches at 0 but captures different groups"))
        for tags, c, nxt in sp.steps(sst):
            nthreads = o.step(threads, c, tags)
            key = (nxt, nthreads)
            if key not in seen:
                seen[key] = (cur, (tags, c))
                work.append(key)
                if len(seen) > 400000:
                    raise core.OutsideSubset("regex lemma: more than 400000 product states")
    return True, len(seen)


def winner_concrete(pattern, s):
    """the ordered simulation on a concrete string: group spans of the match at position 0 or None (cross-check)"""
    ctx = Ctx()
    R0 = ctx.compile(pattern, "at0")
    ctx.freeze()
    return _winner_concrete(ctx, R0, s)


def _class_of(ctx, ch):
    cp = ord(ch)
    for k in range(ctx.nclasses):
        if all((k in ctx.classes[i]) == bool(ctx.sets[i][cp]) for i in range(len(ctx.sets))):
            return k
    raise RuntimeError("no class for %r" % ch)


def _winner_concrete(ctx, R0, s):
    """threads carry their tag placements instead of a disagree bit"""
    o = Ordered(ctx, R0)
    threads = [((R0.start, False, 0), ())]
    fin = (R0.final, True, 0)
    for pos, ch in enumerate(s):
        c = _class_of(ctx, ch)
        new, have, cut = [], set(), False
        for st, placed in threads:
            for ev in o.events(st):
                if ev[0] == "final":
                    if ev[2] == 0:
                        if fin not in have:
                            new.append((fin, placed + tuple((t, pos) for t in ev[1])))
                        cut = True
                        break
                    continue
                _, setid, tgt, tags, em = ev
                if em == 1 or c not in ctx.classes[setid] or (em == 2 and c != ctx.nl_class):
                    continue
                nst = (tgt, True, 1 if em == 2 else 0)
                if nst in have:
                    continue
                have.add(nst)
                new.append((nst, placed + tuple((t, pos) for t in tags)))
            if cut:
                break
        threads = new
    for st, placed in threads:
        for ev in o.events(st):
            if ev[0] == "final" and ev[2] in (0, 1):
                return dict(placed + tuple((t, len(s)) for t in ev[1]))
    return None


def search_lemma(pattern, spec, domain=None):
    """The lemma used for a reader's `re.search(pattern, s)`:

      (unique)  `spec` (a regex with the same capturing groups, consuming all of s) places its groups in one way only;
      (winner)  for every string s of the specification language the highest-priority successful path of `pattern`
                started at position 0 exists -- so the match CPython returns starts at 0 -- and captures exactly the
                groups `spec` marks;
      (none)    if `domain` is given: for every s of the domain language outside the specification language, `pattern`
                has no parse anywhere in s (search -> None).
    Returns ([(name, ok, detail)], ctx)."""
    ctx = Ctx()
    R0 = ctx.compile(pattern, "at0")
    Sp = ctx.compile(spec, "full")
    Rany = Dom = None
    if domain is not None:
        Rany, Dom = ctx.compile(pattern, "any"), ctx.compile(domain, "full")
    if R0.groups != Sp.groups:
        raise core.OutsideSubset("pattern has %d groups, specification %d" % (R0.groups, Sp.groups))
    ctx.freeze()
    out = []
    ok, w = unambiguous(ctx, Sp)
    out.append(("spec_places_groups_uniquely", ok, w))
    ok, w = winner_agrees(ctx, R0, Sp)
    out.append(("match_at_0_captures_the_spec_groups", ok, w))
    if domain is not None:
        ok, w = included(ctx, Rany, Sp, erase=True, restrict=Dom)
        out.append(("no_match_outside_spec_language", ok, w))
    return out, ctx


def crosscheck(pattern, extra=(), n=1500, seed=0, maxlen=8):
    """the ordered simulation against CPython's re.match on random short strings over the class representatives (plus
    the given strings); returns (list of disagreements, number of strings, number of strings that matched)"""
    import random
    rnd = random.Random(seed)
    ctx = Ctx()
    R0 = ctx.compile(pattern, "at0")
    ctx.freeze()
    rx = re.compile(pattern)
    alphabet = list(ctx.rep) + ["\n"]
    bad, matched = [], 0
    strings = list(extra) + ["".join(rnd.choice(alphabet) for _ in range(rnd.randint(0, maxlen))) for _ in range(n)]
    for s in strings:
        m = rx.match(s)
        w = _winner_concrete(ctx, R0, s)
        if m is None:
            if w is not None:
                bad.append((s, "CPython: no match at 0; automaton: %s" % w))
            continue
        matched += 1
        want = {}
        for g in range(1, rx.groups + 1):
            if m.start(g) >= 0:
                want["(%d" % g], want[")%d" % g] = m.start(g), m.end(g)
        if w != want:
            bad.append((s, "CPython groups %s, automaton %s" % (want, w)))
    return bad, len(strings), matched
