"""SMT back ends: z3 (python API) primary, cvc5 (python API fed with z3's SMT-LIB text) second.

prove(goal, assumptions) asks whether  assumptions => goal  is valid, i.e. whether
assumptions /\\ not goal is unsat.  Verdicts: proved / refuted (with model) / unknown.
`unknown` and time-outs are never turned into a verdict.
"""
import time
import z3
from . import core

QUICK_MS = 10000
THOROUGH_MS = 60000


def _cvc5_worker(smt2_text, timeout_ms, conn):
    try:
        import cvc5
        slv = cvc5.Solver()
        slv.setOption("tlimit", str(int(timeout_ms)))
        for opt, val in (("nl-cov", "true"),):
            try:
                slv.setOption(opt, val)
            except Exception:
                pass
        parser = cvc5.InputParser(slv)
        parser.setStringInput(cvc5.InputLanguage.SMT_LIB_2_6, "(set-logic ALL)\n" + smt2_text, "q")
        sm = parser.getSymbolManager()
        out = ""
        while True:
            cmd = parser.nextCommand()
            if cmd.isNull():
                break
            out += str(cmd.invoke(slv, sm))
        lines = out.strip().splitlines()
        conn.send(lines[-1] if lines else "unknown")
    except Exception as e:  # pragma: no cover
        conn.send("unknown (cvc5 error: %s)" % e)


def _cvc5_check(smt2_text, timeout_ms):
    """cvc5 (python API) in a forked child with a hard kill: its own time limit is not always honoured"""
    import multiprocessing as mp
    ctx = mp.get_context("fork")
    parent, child = ctx.Pipe(duplex=False)
    p = ctx.Process(target=_cvc5_worker, args=(smt2_text, timeout_ms, child), daemon=True)
    p.start()
    child.close()
    verdict = "unknown (cvc5 killed after hard timeout)"
    if parent.poll(timeout_ms / 1000.0 + 2.0):
        try:
            verdict = parent.recv()
        except EOFError:
            verdict = "unknown (cvc5 crashed)"
    if p.is_alive():
        p.kill()
    p.join(1)
    return verdict, "cvc5"


def model_to_dict(m):
    d = {}
    for decl in m.decls():
        try:
            v = m[decl]
            if decl.arity() == 0:
                if z3.is_rational_value(v):
                    d[decl.name()] = str(v.as_fraction())
                elif z3.is_algebraic_value(v):
                    d[decl.name()] = v.approx(20).as_decimal(20)
                else:
                    d[decl.name()] = str(v)
            else:
                d[decl.name()] = str(v)
        except Exception:
            d[decl.name()] = "?"
    return d


def prove(goal, assumptions=(), timeout_ms=None, tier="quick", both=False, name="", tactic=None, fallback=True):
    """Validity of assumptions => goal. Returns core.Result."""
    if timeout_ms is None:
        timeout_ms = QUICK_MS if tier == "quick" else THOROUGH_MS
    t0 = time.time()
    s = z3.Solver() if tactic is None else z3.Tactic(tactic).solver()
    s.set("timeout", int(timeout_ms))
    for a in assumptions:
        s.add(a)
    s.add(z3.Not(goal))
    text = s.to_smt2()
    r = s.check()
    backend = "z3"
    verdict = str(r)
    detail = "z3: %s" % verdict
    model = None
    if r == z3.sat:
        try:
            model = model_to_dict(s.model())
        except Exception:
            model = None
    if fallback and (r == z3.unknown or both or tier == "thorough"):
        v2, d2 = _cvc5_check(text, timeout_ms)
        detail += "; cvc5: %s" % v2
        if r == z3.unknown and v2 in ("sat", "unsat"):
            verdict, backend = v2, "cvc5"
        elif r != z3.unknown and v2 in ("sat", "unsat") and v2 != verdict:
            return core.Result(core.ERROR, "z3+cvc5", "solvers disagree on %s: z3=%s cvc5=%s" % (name, verdict, v2),
                               time_s=time.time() - t0, sample=text)
        elif r != z3.unknown and v2 in ("sat", "unsat"):
            backend = "z3+cvc5"
    dt = time.time() - t0
    if verdict == "unsat":
        return core.Result(core.PROVED, backend, detail, time_s=dt, sample=text)
    if verdict == "sat":
        return core.Result(core.REFUTED, backend, detail, model=model, time_s=dt, sample=text)
    return core.Result(core.UNKNOWN, backend, detail + " (reason: %s)" % s.reason_unknown(), time_s=dt, sample=text)


def satisfiable(assumptions, timeout_ms=5000):
    """vacuity guard: the assumption set must have a model"""
    s = z3.Solver()
    s.set("timeout", int(timeout_ms))
    for a in assumptions:
        s.add(a)
    return s.check()
