"""Source of MANIFEST.json (tools/mkmanifest.py).  One entry per claimed property."""

ENGINE_TEXT = {
    "pyvc": ("vf/pyvc.py", "verification-condition generator for discrete pure Python: re-parses the repository file with ast on "
             "every run, path-wise symbolic execution over unbounded z3 integers (vf/pydict.py: dictionaries with a loop rule), "
             "contracts in sidecar files; cross-checked against CPython on the complete finite domain"),
    "symnp": ("vf/symnp.py", "the real repository functions executed by CPython on shape-polymorphic symbolic arrays (module global "
              "`numpy` rebound to a contract stub in the checker process); sums over symbolic dimensions by "
              "linearity/congruence rules; rational identities by case split + cleared denominators (vf/ratid.py); "
              "stub validated against real numpy on object arrays every run"),
    "extreal": ("vf/extreal.py", "IEEE-style extended reals (finite / +-inf / nan cases) for the exp-overflow obligations, on top of symnp"),
    "frames": ("vf/frames.py", "AST effect analysis: every write of every function of the package against its frame (modifies) contract"),
    "regauto": ("vf/regauto.py", "regex lemmas over all strings: CPython's own parse of the pattern -> ordered tagged automata; inclusion "
                "against the language of the writer's line templates by subset construction over a partition of all Unicode code points"),
    "looprule": ("vf/looprule.py", "Hoare loop rule on the real source: a function is cut at a top-level loop from its current AST, prefix / body / suffix are "
                 "compiled unchanged and executed by CPython on objects of symbolic size; initialisation, preservation and exit premises of the stated "
                 "invariant are SMT obligations; pieces cross-checked against the function on concrete inputs every run. For loops nested in with / try blocks (C17) the rule is "
                 "applied in place: the module's `range` is a stub whose iterator installs the invariant state, runs one generic iteration and installs the exit state"),
    "rtc": ("props/", "run-time contracts on the real functions (bounded stand-in only, never counted as discharged)"),
    "smt": ("vf/smt.py", "z3 5.1 python API primary, cvc5 1.4 on the same SMT-LIB text for unknowns and in the thorough tier"),
    "lean": ("vf/lean.py", "Lean 4.33 + Mathlib: lemmas/FiniteSums.lean (sum rules the normaliser uses), lemmas/Hill.lean (Reuss <= Hill <= Voigt), lemmas/Counting.lean (pigeonhole facts of the loop rule)"),
}

NOTES = ("Contract-based deductive verification of the real code; see DESIGN.md. Exit codes of ./check: 0 held, 1 violation "
         "(VIOLATION line), 2 undecided, 3 checker error. Bounded stand-ins are labelled `bounded` in evidence and never "
         "counted under `discharged`.")

# per-property entries live in props/<ID>.py (dict MANIFEST); properties without such a module are listed here
_TODO = "check not built yet in this session (see DESIGN.md section 5 for the planned contracts)"
NA_REASONS = {}
