"""Source of MANIFEST.json (tools/mkmanifest.py).  One entry per claimed property."""

ENGINES = [
    {"name": "pyvc", "path": "vf/pyvc.py", "serves_properties": ["C10"],
     "kind_free_text": "verification-condition generator for discrete pure Python: re-parses the repository file with ast on "
                       "every run, path-wise symbolic execution over unbounded z3 integers, contracts in sidecar files; "
                       "cross-checked against CPython on the complete finite domain"},
    {"name": "symnp", "path": "vf/symnp.py", "serves_properties": ["C01"],
     "kind_free_text": "the real repository functions executed by CPython on shape-polymorphic symbolic arrays (module global "
                       "`numpy` rebound to a contract stub in the checker process); sums over symbolic dimensions by "
                       "linearity/congruence rules; rational identities by case split + cleared denominators (vf/ratid.py); "
                       "stub validated against real numpy on object arrays every run"},
    {"name": "smt", "path": "vf/smt.py", "serves_properties": ["C01", "C10"],
     "kind_free_text": "z3 5.1 python API primary, cvc5 1.4 on the same SMT-LIB text for unknowns and in the thorough tier"},
]

NOTES = ("Contract-based deductive verification of the real code; see DESIGN.md. Exit codes of ./check: 0 held, 1 violation "
         "(VIOLATION line), 2 undecided, 3 checker error. Bounded stand-ins are labelled `bounded` in evidence and never "
         "counted under `discharged`.")

# per-property entries live in props/<ID>.py (dict MANIFEST); properties without such a module are listed here
_TODO = "check not built yet in this session (see DESIGN.md section 5 for the planned contracts)"
NA_REASONS = {}
