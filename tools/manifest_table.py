"""Source of MANIFEST.json (tools/mkmanifest.py).  One entry per claimed property."""

ENGINES = [
    {"name": "pyvc", "path": "vf/pyvc.py", "serves_properties": ["C10"],
     "kind_free_text": "verification-condition generator for discrete pure Python: re-parses the repository file with ast on "
                       "every run, path-wise symbolic execution over unbounded z3 integers, contracts in sidecar files; "
                       "cross-checked against CPython on the complete finite domain"},
    {"name": "smt", "path": "vf/smt.py", "serves_properties": ["C10"],
     "kind_free_text": "z3 5.1 python API primary, cvc5 1.4 on the same SMT-LIB text for unknowns and in the thorough tier"},
]

NOTES = ("Contract-based deductive verification of the real code; see DESIGN.md. Exit codes of ./check: 0 held, 1 violation "
         "(VIOLATION line), 2 undecided, 3 checker error. Bounded stand-ins are labelled `bounded` in evidence and never "
         "counted under `discharged`.")

CHECKS = [
    {"id": "C10", "engine": "pyvc", "category": "proof",
     "technique": "contract-based deductive verification: AST->SMT verification conditions (z3/cvc5) on cij/util/voigt.py",
     "text": "Every function of cij/util/voigt.py is executed symbolically from its current source; per-path verification "
             "conditions over unbounded integers are discharged by z3 (cvc5 second): range => canonical result, out of range "
             "=> raises (for every integer), the quotient theorem F(x)=F(x') <=> x' in orbit(x) on the path summary, "
             "multiplicity = class size, 3/3/15 classification, view round trips, and all spellings through create() "
             "(strings up to length 6 over abstract characters, integers up to 7 digits). The property's own finite "
             "quantifier (81 tuples, 36 pairs, spellings, out-of-range neighbours) is additionally enumerated completely "
             "on the real code.",
     "note": "Assumes the Python semantics listed in evidence.python_semantics_assumed (A-PYSEM; cross-checked against CPython "
             "on 5^4 tuples + 8^2 pairs every run); trusts z3/cvc5 and the pyvc engine; bool/float arguments are outside the "
             "contract's precondition type in {int,str}."},
]

_TODO = "check not built yet in this session (see DESIGN.md section 5 for the planned contracts)"
NOT_APPLICABLE = [
    {"property_id": p, "reason": _TODO} for p in
    ["C01", "C02", "C03", "C04", "C05", "C06", "C07", "C08", "C09", "C11", "C12", "C13", "C14", "C15", "C16", "C17",
     "C18", "C19", "C20"]
]
