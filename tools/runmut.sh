#!/bin/sh
# tools/runmut.sh <patch.diff> <property id>...   -- development tool (not a registered command)
# Applies a property-breaking change to a scratch COPY of /repo's package (under /tmp, removed afterwards) and
# runs the given checks against it (CIJ_REPO + PYTHONPATH point the engines at the copy).
PATCH="$1"; shift
TMP=$(mktemp -d /tmp/mut.XXXXXX)
cp -r /repo/cij "$TMP/cij"
mkdir -p "$TMP/examples" && cp -r /repo/examples/. "$TMP/examples/" 2>/dev/null
(cd "$TMP" && patch -p1 -s < "$PATCH") || { echo "patch failed"; rm -rf "$TMP"; exit 2; }
HERE="$(cd "$(dirname "$0")/.." && pwd)"
for P in "$@"; do
  (cd "$HERE" && VERIF_EVIDENCE_DIR="$TMP/evidence" CIJ_REPO="$TMP" PYTHONPATH="$TMP" ./check "$P" --tier "${TIER:-quick}" > "$TMP/out.txt" 2>&1; echo "exit=$?"; grep -E "^(VIOLATION|FAILED-OBLIGATION|KNOWN|UNDECIDED|CHECKER-ERROR|UNCONFIRMED|C[0-9]+ tier)" "$TMP/out.txt" | cut -c1-300)
done
rm -rf "$TMP"
