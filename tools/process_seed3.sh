#!/bin/sh
# tools/process_seed3.sh <PID> <variant>...  -- verify a round-3 seeded change in a scratch worktree, import it into /verif/seeded, run its property's check against it
PID="$1"; shift
mkdir -p /tmp/seedverify
for V in "$@"; do
  SRC=/tmp/seed/$PID/_seed/$V
  [ -f "$SRC/patch.diff" ] || { echo "$PID$V: no patch"; continue; }
  /verif/tools/verify_seed.sh "$SRC" "$PID$V" >> /tmp/seedverify/summary.txt 2>&1
  tail -1 /tmp/seedverify/summary.txt
  NEEDS=$(grep -m1 -i '^\**NEEDS' "$SRC/notes.md" | sed 's/^\**NEEDS:\**//I' | cut -c1-300)
  [ -n "$NEEDS" ] || NEEDS="see notes.md"
  python3 /verif/tools/import_seed.py "$PID" "$V" "$NEEDS" || { echo "$PID$V: NOT imported (verification failed)"; continue; }
  (cd /verif && flock /tmp/seedverify/check.lock .ov/bin/python tools/seedmatrix.py "$PID-$V")
done
