#!/usr/bin/env python3
"""tools/seed_prompt3.py <property id> <letter1> <letter2>

Prompt of the third seeding round: the sub-agent sees only the property text, its own scratch worktree and one-line
descriptions of the changes already known for that property (so that it produces different ones); nothing from /verif's
machinery."""
import json, sys, os, re, glob

pid, la, lb = sys.argv[1], sys.argv[2], sys.argv[3]
wt = "/tmp/seed/" + pid
for l in open("/verif/properties.jsonl"):
    p = json.loads(l)
    if p["id"] == pid:
        break

known = []
for d in sorted(glob.glob(f"/verif/seeded/{pid}-*")):
    try:
        notes = open(d + "/notes.md").read()
    except OSError:
        notes = ""
    m = json.load(open(d + "/meta.json"))
    first = next((ln.strip("# ").strip() for ln in notes.splitlines() if ln.strip()), "")
    need = m.get("needs_to_manifest", "")
    if need.startswith("#") or need.startswith("see notes"):
        need = ""
    known.append(f"  - {first[:160]}" + (f" (manifests with: {need[:160]})" if need else ""))
known_txt = "\n".join(known) if known else "  (none)"

print(f"""You are helping to test a verification effort for the Python package MineralsCloud/cij (high-temperature thermoelastic tensors Cij via quasiharmonic phonons). You have your own scratch git worktree of the repository at {wt} (the package is in {wt}/cij, tests in {wt}/tests). Work ONLY inside {wt} (and, if you need temporary files, under /tmp/seedtmp_{pid}); never read or write /repo or /verif, and do not use the network (there is none).

The property under test:

TITLE: {p['title']}
STATEMENT: {p['statement']}
QUANTIFIED OVER: {p['quantifier']['text']}
CODE IT IS ANCHORED IN: {', '.join(p['anchors']['files'])}

Your job: produce TWO different, independent, realistic source changes to the package (each an edit a developer could plausibly make by mistake, as an "optimisation", a "clean-up" or during a refactoring, touching one to three places in {wt}/cij) such that each change, on its own,
  (a) BREAKS the property above,
  (b) still imports/compiles and still passes the existing test suite exactly as well as the unchanged tree does, and
  (c) needs something SPECIFIC to manifest: an unusual but legitimate input or configuration, a corner of the input domain the shipped examples do not visit, a particular combination of options, a degenerate or boundary case (first / last grid point, a single volume / q-point / atom, equal values, zeros, negative or very large / very small magnitudes, unsorted or duplicated entries, mixed letter case, other units), or two cooperating edits in different functions/files that each look fine alone. This round is about LOGIC, NUMERICS AND CONVENTIONS, not about state: do NOT use caches, memoisation, lru_cache, module- or class-level mutable state, in-place mutation of shared arrays, or aliasing as the mechanism (those are already well covered). Think of: a data-dependent fast path or early exit that is wrong for some inputs; an off-by-one at the end of a grid or block; a tolerance or threshold that swallows legitimate values; a sign / transpose / axis / ordering convention that only matters for unsymmetric or unsorted data; a unit or normalisation applied in one branch but not the other; an option that is honoured in one code path and ignored in another; error handling that turns a failure into a silently wrong value; a refactoring that is equivalent only for the shapes / systems / interpolators the examples use. NOT something that ordinary use or the shipped examples would expose at once, and not a bare single-token slip unless it only shows on unusual input. Subtle is better than blatant. Do not touch tests/, setup.py or data files under examples/.
Changes of the following kinds are already known for this property - produce DIFFERENT ones (another function, another mechanism, another clause of the property):
{known_txt}
For each change also write a demonstration: a small stand-alone Python program that FAILS (non-zero exit / assertion error) with the change applied and PASSES on the unchanged tree. The demonstration should check the property itself (as stated above, e.g. against an independent evaluation of what the statement says), not merely compare against the old implementation's output.

How to run things: use the interpreter /venv/bin/python. To make `import cij` pick up YOUR worktree run with `cd {wt} && PYTHONPATH={wt} /venv/bin/python ...`. The test suite is `cd {wt} && PYTHONPATH={wt} /venv/bin/python -m pytest -q -p no:cacheprovider -q tests` (takes ~1.5 min; on the unchanged tree everything passes except the tests involving examples/bridgmanite/input01, which is an emptied file - those fail before and after). Running `Calculator` end to end costs ~100 s the first time (numba compilation); prefer demonstrations that call the relevant functions directly on small synthetic inputs when possible.

Deliverables (write them into {wt}/_seed/):
  {wt}/_seed/{la}/patch.diff  (output of `git -C {wt} diff -- cij` with ONLY the first change applied)   {wt}/_seed/{la}/demo.py   {wt}/_seed/{la}/notes.md
  {wt}/_seed/{lb}/patch.diff  (ONLY the second change applied)                                           {wt}/_seed/{lb}/demo.py   {wt}/_seed/{lb}/notes.md
notes.md: which clause of the property breaks, what is needed for it to manifest (one line starting with "NEEDS:"), and the exact commands you ran with their outcome (demo on unchanged tree: pass; demo with patch: fail; test suite with patch: same results as without).
Do NOT use `git stash` (the stash is shared by all worktrees of the repository and other agents are working in theirs): toggle your change with `git apply` / `git apply -R` / `git checkout -- cij`. Procedure hint: make the first change, verify (a)-(c), save the diff, `git -C {wt} checkout -- cij`, then do the same for the second. Leave the worktree's cij/ directory UNCHANGED (clean `git status` for cij/) when you finish. Each demo.py must be runnable as `cd {wt} && PYTHONPATH={wt} /venv/bin/python _seed/{la}/demo.py` and must exit 0 on the unchanged tree.
Finish with a short report: one paragraph per change (what changed, why it breaks the property, what it needs to manifest).""")
