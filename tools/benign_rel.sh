#!/bin/sh
# tools/benign_rel.sh <dir with patch.diff>  -- run a behaviour-preserving patch through the checks of every property anchored in a file it touches (plus C14)
D="$1"
IDS=$(/verif/.ov/bin/python - "$D/patch.diff" <<'PY'
import json, re, sys
files = set(re.findall(r"^\+\+\+ b/(\S+)", open(sys.argv[1]).read(), re.M))
ids = {"C14"}
for l in open("/verif/properties.jsonl"):
    p = json.loads(l)
    if files & set(p["anchors"]["files"]):
        ids.add(p["id"])
# files used by checks although not anchored there
extra = {"cij/util/fill.py": ["C05", "C17"], "cij/core/tasks.py": ["C14"], "cij/util/voigt.py": ["C03", "C07", "C08"], "cij/io/output/results_writer.py": ["C07"],
         "cij/core/phonon_contribution/nonshear.py": ["C14"], "cij/core/calculator.py": ["C18"]}
for f in files:
    ids.update(extra.get(f, []))
print(" ".join(sorted(ids)))
PY
)
echo "$(basename $D): checks $IDS"
/verif/.ov/bin/python /verif/tools/benign.py "$D/patch.diff" $IDS 2>&1 | tail -n 12
