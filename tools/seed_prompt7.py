#!/usr/bin/env python3
"""tools/seed_prompt7.py <property id> <letter>  -- round 7: ONE change made of two cooperating sites that each look fine alone"""
import json, sys, glob
pid, la = sys.argv[1], sys.argv[2]
wt = "/tmp/seed/" + pid
for l in open("/verif/properties.jsonl"):
    p = json.loads(l)
    if p["id"] == pid:
        break
known = []
for d in sorted(glob.glob(f"/verif/seeded/{pid}-*")):
    try:
        notes = open(d + "/notes.md").read()
    except OSError:
        notes = ""
    first = next((ln.strip("# ").strip() for ln in notes.splitlines() if ln.strip()), "")
    known.append(f"  - {first[:170]}")
known_txt = "\n".join(known) if known else "  (none)"
print(f"""You are helping to test a verification effort for the Python package MineralsCloud/cij (high-temperature thermoelastic tensors Cij via quasiharmonic phonons). You have your own scratch git worktree of the repository at {wt} (the package is in {wt}/cij, tests in {wt}/tests). Work ONLY inside {wt} (and, if you need temporary files, under /tmp/seedtmp_{pid}); never read or write /repo or /verif, and do not use the network (there is none).

The property under test:

TITLE: {p['title']}
STATEMENT: {p['statement']}
QUANTIFIED OVER: {p['quantifier']['text']}
CODE IT IS ANCHORED IN: {', '.join(p['anchors']['files'])}

Your job (you have about 10 minutes of wall time, so be quick and keep it small): produce ONE realistic source change to the package such that the change
  (a) BREAKS the property above,
  (b) still imports/compiles and still passes the existing test suite exactly as well as the unchanged tree does, and
  (c) needs something SPECIFIC to manifest (an unusual but legitimate input or configuration, a corner of the input domain the shipped examples do not visit, a particular combination of options, a boundary case).
THIS ROUND IS ABOUT TWO COOPERATING SITES. The change must touch TWO places (two functions, or a function and a data file under {wt}/cij/data, or a helper and its caller) such that each edit alone would look fine / be harmless, and only their combination breaks the property for the specific input. Examples of the pattern: a helper starts returning a value in another unit / order / sign convention and ONE of its two callers is adapted while the other is not; a default moved from the data file into code with a slightly different value; a normalisation done twice on one path; a key renamed in the writer rules but matched case-insensitively in only one consumer.
The edit should look like something a developer could plausibly do (a data-file tidy-up, a changed default, a unit constant "updated" to another CODATA value in one place only, a helper generalised, an option renamed with an incomplete alias, a conversion factor moved). Do NOT use caches / memoisation / shared mutable state as the mechanism. Subtle is better than blatant; it must not show in ordinary use of the shipped examples. Do not touch tests/, setup.py or the example data under examples/.
Changes already known for this property - produce DIFFERENT ones:
{known_txt}
Also write a demonstration: a small stand-alone Python program that FAILS (non-zero exit / assertion error) with the change applied and PASSES on the unchanged tree. It should check the property itself (as stated above, against an independent evaluation of what the statement says), not merely compare with the old implementation's output.

How to run things: use the interpreter /venv/bin/python. To make `import cij` pick up YOUR worktree run with `cd {wt} && PYTHONPATH={wt} /venv/bin/python ...`. The test suite is `cd {wt} && PYTHONPATH={wt} /venv/bin/python -m pytest -q -p no:cacheprovider -q tests` (takes about 1 min; on the unchanged tree everything passes except the tests involving examples/bridgmanite/input01, an emptied file - those fail before and after). NEVER run more than one pytest at a time and run it once per change. Running `Calculator` end to end costs ~100 s the first time (numba compilation); prefer demonstrations that call the relevant functions directly on small synthetic inputs when possible. Demos must be self-contained single files (do not import helper modules of your own).

Deliverables (write them into {wt}/_seed/):
  {wt}/_seed/{la}/patch.diff  (output of `git -C {wt} diff -- cij`)   {wt}/_seed/{la}/demo.py   {wt}/_seed/{la}/notes.md
notes.md: which clause of the property breaks, what is needed for it to manifest (one line starting with "NEEDS:"), and the exact commands you ran with their outcome (demo on unchanged tree: pass; demo with patch: fail; test suite with patch: same results as without).
Do NOT use `git stash` (shared between worktrees); toggle your change with `git apply` / `git apply -R` / `git checkout -- cij`. Leave the worktree's cij/ directory UNCHANGED (clean `git status` for cij/) when you finish and remove the output files the tests write into examples/ (`git -C {wt} clean -fq -- examples`). Each demo.py must be runnable as `cd {wt} && PYTHONPATH={wt} /venv/bin/python _seed/{la}/demo.py` and must exit 0 on the unchanged tree.
Finish with a short report: one paragraph (what changed, why it breaks the property, what it needs to manifest).""")
