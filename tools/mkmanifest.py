#!/usr/bin/env python3
"""Regenerate MANIFEST.json from the table below (kept in one place so the manifest is always valid)."""
import json, os, sys
HERE = os.path.dirname(os.path.dirname(os.path.abspath(__file__)))
sys.path.insert(0, HERE)
from tools.manifest_table import ENGINE_TEXT, NOTES, NA_REASONS, _TODO  # noqa: E402
import ast

PROPS = [json.loads(l)["id"] for l in open(os.path.join(HERE, "properties.jsonl"))]
CHECKS, NOT_APPLICABLE = [], []
for pid in PROPS:
    f = os.path.join(HERE, "props", pid + ".py")
    entry = None
    if os.path.exists(f):
        for node in ast.parse(open(f).read()).body:
            if isinstance(node, ast.Assign) and any(isinstance(t, ast.Name) and t.id == "MANIFEST" for t in node.targets):
                entry = ast.literal_eval(node.value)
    if entry:
        entry["id"] = pid
        CHECKS.append(entry)
    else:
        NOT_APPLICABLE.append({"property_id": pid, "reason": NA_REASONS.get(pid, _TODO)})

serves = {}
for c in CHECKS:
    serves.setdefault(c["engine"], []).append(c["id"])
    serves.setdefault("smt", []).append(c["id"]) if c["engine"] in ("pyvc", "symnp", "extreal") else None
for pid in ("C01", "C02", "C07", "C13", "C20"):
    serves.setdefault("lean", []).append(pid)
for pid in ("C04", "C17", "C20"):
    serves.setdefault("looprule", []).append(pid)
ENGINES = [{"name": k, "path": ENGINE_TEXT[k][0], "serves_properties": sorted(set(v)), "kind_free_text": ENGINE_TEXT[k][1]}
           for k, v in serves.items()]

BASELINE = ("cd /repo && /venv/bin/python -m pytest -ra -q -p no:cacheprovider --timeout=900 "
            "--continue-on-collection-errors")

man = {
    "version": 1,
    "setup_cmd": "./setup.sh",
    "hooks": {
        "guard": "CIJ_VERIF",
        "enable": "no source hooks: contracts are sidecar files under /verif/contracts and /verif/props; engines "
                  "rebind module globals (e.g. nonshear.numpy) only inside the checker process",
        "baseline_off_cmd": BASELINE,
        "source_commits": [],
        "add_only": True,
    },
    "engines": ENGINES,
    "checks": [],
    "notes": NOTES,
    "not_applicable": NOT_APPLICABLE,
}
for c in CHECKS:
    pid = c["id"]
    man["checks"].append({
        "property_id": pid,
        "quick_cmd": "./check %s --tier quick" % pid,
        "thorough_cmd": "./check %s --tier thorough" % pid,
        "evidence_file": "evidence/%s.json" % pid,
        "replay_cmd_template": "./check %s --replay {path}" % pid,
        "engine": c["engine"],
        "level_claimed": {"category": c["category"], "text": c["text"], "design_ref": c.get("design_ref", "DESIGN.md section 5, " + pid)},
        "level_note": c["note"],
        "technique": c["technique"],
    })
ids = [c["id"] for c in CHECKS] + [n["property_id"] for n in NOT_APPLICABLE]
props = [json.loads(l)["id"] for l in open(os.path.join(HERE, "properties.jsonl"))]
assert sorted(ids) == sorted(props), (sorted(set(props) - set(ids)), sorted(set(ids) - set(props)))
with open(os.path.join(HERE, "MANIFEST.json"), "w") as fp:
    json.dump(man, fp, indent=1)
try:
    import jsonschema
    jsonschema.validate(man, json.load(open("/root/.vp/MANIFEST.schema.json")))
    print("MANIFEST.json valid: %d checks, %d not_applicable" % (len(CHECKS), len(NOT_APPLICABLE)))
except ImportError:
    print("written (jsonschema not available to validate)")
