#!/bin/sh
# tools/verify_seed.sh <dir with patch.diff + demo.py> <tag>
# Confirms in a scratch worktree of /repo (outside /repo and /verif, removed afterwards) that
#  - the demo passes on the unchanged tree, fails with the patch,
#  - the baseline test-suite result (passed / failed / error sets) is unchanged by the patch.
# The test-suite runs are serialised with a lock (each needs several GB); the result list of the unchanged tree is
# computed once per /repo commit and cached under /tmp/seedverify.  Prints one summary line; logs in /tmp/seedverify/<tag>.log
SRC="$1"; TAG="$2"
WT="/tmp/sv_$TAG"
mkdir -p /tmp/seedverify
LOG="/tmp/seedverify/$TAG.log"
: > "$LOG"
HEAD=$(git -C /repo rev-parse --short HEAD)
BASE="/tmp/seedverify/BASE.$HEAD.txt"
git -C /repo worktree remove --force "$WT" >/dev/null 2>&1
git -C /repo worktree add --detach "$WT" HEAD -q >>"$LOG" 2>&1 || { echo "$TAG worktree-failed"; exit 2; }
mkdir -p "$WT/_seed/X"; cp "$SRC/demo.py" "$WT/_seed/X/demo.py"
run_demo() { (cd "$WT" && PYTHONPATH="$WT" PYTHONWARNINGS=ignore timeout 1800 /venv/bin/python _seed/X/demo.py >>"$LOG" 2>&1); echo $?; }
run_tests() { (cd "$WT" && PYTHONPATH="$WT" flock /tmp/seedverify/pytest.lock timeout 2400 /venv/bin/python -m pytest -q -p no:cacheprovider -q tests -rA 2>&1 | grep -E "^(PASSED|FAILED|ERROR)" | sort > "$1"); }
echo "== demo on clean" >>"$LOG"; D0=$(run_demo)
if [ ! -s "$BASE" ] || [ "$(grep -c '^PASSED' "$BASE")" -lt 60 ]; then run_tests "$BASE.$$" && mv "$BASE.$$" "$BASE"; fi
git -C "$WT" checkout -- . >>"$LOG" 2>&1
git -C "$WT" clean -fdq examples >>"$LOG" 2>&1
if ! git -C "$WT" apply "$SRC/patch.diff" >>"$LOG" 2>&1; then echo "$TAG patch-does-not-apply"; git -C /repo worktree remove --force "$WT"; exit 2; fi
echo "== demo with patch" >>"$LOG"; D1=$(run_demo)
run_tests "/tmp/seedverify/$TAG.patched.txt"
if [ "$(grep -c '' "/tmp/seedverify/$TAG.patched.txt")" -lt 60 ]; then sleep 20; run_tests "/tmp/seedverify/$TAG.patched.txt"; fi
if cmp -s "$BASE" "/tmp/seedverify/$TAG.patched.txt"; then T=same; else T=DIFFERENT; fi
NP=$(grep -c "^PASSED" "/tmp/seedverify/$TAG.patched.txt")
git -C /repo worktree remove --force "$WT" >>"$LOG" 2>&1
echo "$TAG demo_clean=$D0 demo_patched=$D1 tests=$T passed=$NP"
