#!/bin/sh
# run every registered quick check on the unchanged tree (rewrites evidence/), print one line per check
cd "$(dirname "$0")/.." && ./setup.sh
for id in $(.ov/bin/python -c "import json;print(' '.join(c['property_id'] for c in json.load(open('MANIFEST.json'))['checks']))"); do
  ./check $id --tier "${TIER:-quick}" > /tmp/runall_$id.log 2>&1; echo "$id exit=$? $(grep -E '^C[0-9]+ tier' /tmp/runall_$id.log | cut -c1-140)"
  grep -E "^(VIOLATION|KNOWN|UNDECIDED|CHECKER-ERROR)" /tmp/runall_$id.log | cut -c1-200
done
