#!/bin/sh
# tools/benign_all.sh  -- development tool: every behaviour-preserving patch of /verif/benign through all 20 quick checks
# (scratch copies under /tmp, removed afterwards).  Expectation: "0 non-zero" for every patch.
cd "$(dirname "$0")/.."
for d in benign/*/; do
  n=$(basename "$d")
  printf "%s: " "$n"
  .ov/bin/python tools/benign.py "$d/patch.diff" 2>&1 | tail -n +1 | tr '\n' ' '
  echo
done
