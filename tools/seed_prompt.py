#!/usr/bin/env python3
"""print the prompt given to an independent sub-agent that seeds a property-breaking change (it sees only the property text)"""
import json, sys
pid = sys.argv[1]
wt = "/tmp/seed/" + pid
for l in open("/verif/properties.jsonl"):
    p = json.loads(l)
    if p["id"] == pid:
        break
print(f"""You are helping to test a verification effort for the Python package MineralsCloud/cij (high-temperature thermoelastic tensors Cij via quasiharmonic phonons). You have your own scratch git worktree of the repository at {wt} (the package is in {wt}/cij, tests in {wt}/tests). Work ONLY inside {wt} (and, if you need temporary files, under /tmp/seedtmp_{pid}); never read or write /repo or /verif, and do not use the network (there is none).

The property under test:

TITLE: {p['title']}
STATEMENT: {p['statement']}
QUANTIFIED OVER: {p['quantifier']['text']}
CODE IT IS ANCHORED IN: {', '.join(p['anchors']['files'])}

Your job: produce TWO different, independent, realistic source changes to the package (each a small edit a developer could plausibly make by mistake or during a refactoring, touching one or two places in {wt}/cij) such that each change, on its own,
  (a) BREAKS the property above,
  (b) still imports/compiles and still passes the existing test suite exactly as well as the unchanged tree does, and
  (c) needs something SPECIFIC to manifest - an unusual input, a particular corner of the input domain, a multi-step sequence of operations, a particular configuration, or two cooperating edits that each look fine alone - i.e. NOT something that ordinary use or the shipped examples would expose at once. Subtle is better than blatant. Do not touch tests/, setup.py or data files under examples/.
For each change also write a demonstration: a small stand-alone Python program (or pytest test) that FAILS (non-zero exit / assertion error) with the change applied and PASSES on the unchanged tree. The demonstration should check the property itself (as stated above), not merely compare against the old implementation's output.

How to run things: use the interpreter /venv/bin/python. To make `import cij` pick up YOUR worktree run with `cd {wt} && PYTHONPATH={wt} /venv/bin/python ...`. The test suite is `cd {wt} && PYTHONPATH={wt} /venv/bin/python -m pytest -q -p no:cacheprovider -x -q tests` (takes ~1.5 min; on the unchanged tree everything passes except the tests involving examples/bridgmanite/input01, which is an emptied file - those fail before and after). Running `Calculator` end to end costs ~100 s the first time (numba compilation); prefer demonstrations that call the relevant functions directly on small synthetic inputs when possible.

Deliverables (write them into {wt}/_seed/):
  {wt}/_seed/A/patch.diff  (output of `git -C {wt} diff -- cij` with ONLY change A applied)   {wt}/_seed/A/demo.py   {wt}/_seed/A/notes.md
  {wt}/_seed/B/patch.diff  (ONLY change B applied)                                            {wt}/_seed/B/demo.py   {wt}/_seed/B/notes.md
notes.md: which clause of the property breaks, what is needed for it to manifest, and the exact commands you ran with their outcome (demo on unchanged tree: pass; demo with patch: fail; test suite with patch: same results as without).
Procedure hint: make change A, verify (a)-(c), save the diff, `git -C {wt} checkout -- cij`, then do the same for B. Leave the worktree's cij/ directory UNCHANGED (clean `git status` for cij/) when you finish. Each demo.py must be runnable as `cd {wt} && PYTHONPATH={wt} /venv/bin/python _seed/A/demo.py` and must exit 0 on the unchanged tree.
Finish with a short report: for A and B one paragraph each (what changed, why it breaks the property, what it needs to manifest).""")
