#!/usr/bin/env python3
"""tools/import_seed.py <PID> <variant> "<needs>"  -- copy a verified seeded change into /verif/seeded/<PID>-<variant>/"""
import json, os, shutil, subprocess, sys
pid, var, needs = sys.argv[1], sys.argv[2], sys.argv[3]
src = "/tmp/seed/%s/_seed/%s" % (pid, var)
tag = pid + var
line = [l for l in open("/tmp/seedverify/summary.txt") if l.startswith(tag + " ")]
assert line and "demo_clean=0" in line[-1] and "demo_patched=0" not in line[-1] and "tests=same" in line[-1], line
dst = "/verif/seeded/%s-%s" % (pid, var)
os.makedirs(dst, exist_ok=True)
for f in ("patch.diff", "demo.py", "notes.md"):
    if os.path.exists(os.path.join(src, f)):
        shutil.copy(os.path.join(src, f), os.path.join(dst, f))
meta = {"property": pid, "variant": var, "needs_to_manifest": needs,
        "confirmed_by": "tools/verify_seed.sh in a scratch worktree of /repo (removed afterwards): " + line[-1].strip(),
        "repo_commit": subprocess.check_output(["git", "-C", "/repo", "rev-parse", "HEAD"]).decode().strip(),
        "origin": "independent sub-agent given only the property text and its own scratch worktree",
        "detected_by": []}
if os.path.exists(os.path.join(dst, "meta.json")):
    meta["detected_by"] = json.load(open(os.path.join(dst, "meta.json"))).get("detected_by", [])
json.dump(meta, open(os.path.join(dst, "meta.json"), "w"), indent=1)
print("imported", dst)
