#!/usr/bin/env python3
"""tools/mutants.py [IDs...]  -- development tool (not a registered command): a corpus of deliberate property-breaking edits.

Each mutant is (name, file, old text, new text, properties expected to report it).  The edit is applied to a scratch copy of
/repo's package under /tmp (removed afterwards), the listed checks are run against the copy (CIJ_REPO / PYTHONPATH) and must
exit 1 with a VIOLATION line.  Results go to /verif/seeded/MUTANTS.json.
"""
import json, os, re, shutil, subprocess, sys, tempfile
HERE = os.path.dirname(os.path.dirname(os.path.abspath(__file__)))

NS = "cij/core/phonon_contribution/nonshear.py"
SH = "cij/core/phonon_contribution/shear.py"
M = [
    ("long-prefactor-1/15", NS, "1 / 5 / numpy.prod(self.e, axis=0),\n            (1 / 3 / self.e[0], 1 / 3 / self.e[1]),\n            1 / 5 / numpy.prod(self.e, axis=0)",
     "1 / 15 / numpy.prod(self.e, axis=0),\n            (1 / 3 / self.e[0], 1 / 3 / self.e[1]),\n            1 / 15 / numpy.prod(self.e, axis=0)", ["C01"]),
    ("gap-uses-e0-twice", NS, "* self.average_over_modes(self.Q2 * self.mode_gamma[1][1]) \\", "* self.average_over_modes(self.Q2 * self.mode_gamma[1][0]) \\", ["C02"]),
    ("drop-3N", NS, "                )\n            ) * 3 * self.na\n\n        ret[numpy.where(self.t_array == 0),:] = 0\n\n        return ret\n\n    @LazyProperty\n    def value_isothermal(self) -> numpy.ndarray:",
     "                )\n            ) * self.na\n\n        ret[numpy.where(self.t_array == 0),:] = 0\n\n        return ret\n\n    @LazyProperty\n    def value_isothermal(self) -> numpy.ndarray:", ["C01"]),
    ("average-wrong-axis", NS, "numpy.average(_amount, axis=dims - 1),\n        weights=q_weights,\n        axis=dims - 2", "numpy.average(_amount, axis=dims - 2),\n        weights=q_weights,\n        axis=dims - 2", ["C01"]),
    ("no-copy-before-clear", NS, "_amount = amount.copy()", "_amount = amount", ["C01"]),
    ("clear-gamma-4-modes", NS, "[0, slice(0, 3)]", "[0, slice(0, 4)]", ["C01", "C13"]),
    ("offdiag-pressure-sign", NS, "+ self.qha_calculator.volume_base.pressures\n            - self.calculator.static_p_array[nax, :]", "- self.qha_calculator.volume_base.pressures\n            + self.calculator.static_p_array[nax, :]", ["C01"]),
    ("Q1-plus-one", NS, "return self.Q / (numpy.exp(self.Q) - 1)", "return self.Q / (numpy.exp(self.Q) + 1)", ["C01"]),
    ("hdivk-times-2", NS, "return  h_div_k * (self.freq_array", "return  2 * h_div_k * (self.freq_array", ["C01"]),
    ("adiabatic-minus", NS, "return self.value_isothermal + self.isothermal_to_adiabatic", "return self.value_isothermal - self.isothermal_to_adiabatic", ["C02"]),
    ("shear-half-multiplicity", SH, ") / self.key.multiplicity", ") / self.key.multiplicity * 2", ["C03", "C04"]),
    ("shear-T-not-transposed", SH, "self.transformation_matrix.T @ strain @ self.transformation_matrix", "self.transformation_matrix @ strain @ self.transformation_matrix.T", ["C03"]),
    ("shear-target-not-skipped", SH, "        if target and key == target: continue\n\n        _moduli", "        _moduli", ["C03"]),
    ("vrh-c13-c23", "cij/core/calculator.py", "+ 2 * (self.c12 + self.c23 + self.c13)) / 9", "+ 2 * (self.c12 + self.c13 + self.c13)) / 9", ["C07"]),
    ("reuss-3-instead-of-4", "cij/core/calculator.py", "+ 4 * (self.s11 + self.s22 + self.s33) \\", "+ 3 * (self.s11 + self.s22 + self.s33) \\", ["C07"]),
    ("vp-4/3-to-3/4", "cij/core/calculator.py", "(self.bulk_modulus_voigt_reuss_hill + 4 / 3 * self.shear_modulus_voigt_reuss_hill)", "(self.bulk_modulus_voigt_reuss_hill + 3 / 4 * self.shear_modulus_voigt_reuss_hill)", ["C07"]),
    ("isothermal-for-s-suffix", "cij/core/calculator.py", "if res.group(3) == 't':\n                    return self.calculator.modulus_isothermal[key]", "if res.group(3) != 's':\n                    return self.calculator.modulus_isothermal[key]", ["C07"]),
    ("v2p-args-swapped", "cij/core/calculator.py", "return v2p(func_of_t_v, self.calculator.qha_calculator.volume_base.pressures, self.p_array)", "return v2p(self.calculator.qha_calculator.volume_base.pressures, func_of_t_v, self.p_array)", ["C06"]),
    ("tp-reuss-is-voigt", "cij/core/calculator.py", "return self.v2p(self.calculator.volume_base.bulk_modulus_reuss)", "return self.v2p(self.calculator.volume_base.bulk_modulus_voigt)", ["C06"]),
    ("mode-gamma-order-swapped", "cij/core/calculator.py", "self.mode_gamma = [vdr_dv, gamma_i, gamma_i**2]", "self.mode_gamma = [gamma_i, vdr_dv, gamma_i**2]", ["C05"]),
    ("fit-modulus-not-times-V", "cij/core/full_modulus.py", "p = numpy.polyfit(strains, self.volumes * moduli, deg = order + 1)", "p = numpy.polyfit(strains, moduli, deg = order + 1)", ["C05"]),
    ("fit-degree-2", "cij/core/full_modulus.py", "deg = order + 1)", "deg = order)", ["C05"]),
    ("cubic-c13-c23-typo", "cij/data/constraints/hexagonal", "c13 = c23", "c13 = c12", ["C08"]),
    ("trigonal6-sign", "cij/data/constraints/trigonal6", "c14 = -c24 = c56", "c14 = c24 = c56", ["C08"]),
    ("residual-test-inverted", "cij/util/fill.py", "if numpy.any(residuals > residual_atol) and not ignore_residuals:", "if numpy.any(residuals > residual_atol) and ignore_residuals:", ["C09"]),
    ("rank-21-to-20", "cij/util/fill.py", "if rank < nsym and not ignore_rank:", "if rank < nsym - 1 and not ignore_rank:", ["C09"]),
    ("voigt-4-5-swapped", "cij/util/voigt.py", "    4: (2, 3),\n    5: (1, 3),", "    4: (1, 3),\n    5: (2, 3),", ["C10"]),
    ("defaults-override-user", "cij/io/config/config.py", "        else:\n            output_dict[k] = input_dict[k]\n    return output_dict", "        else:\n            output_dict[k] = default_dict[k]\n    return output_dict", ["C16"]),
    ("lsq-first-derivative-twice", "cij/core/mode_gamma.py", "vdr_dv_array = - numpy.polyval(numpy.polyder(p, 2), ln_v_array)", "vdr_dv_array = - numpy.polyval(numpy.polyder(p, 1), ln_v_array)", ["C11"]),
    ("spline-sign-dropped", "cij/core/mode_gamma.py", "        numpy.exp(interp(ln_v_array)),\n        - interp(ln_v_array, nu=1),\n        - interp(ln_v_array, nu=2)\n    )", "        numpy.exp(interp(ln_v_array)),\n        interp(ln_v_array, nu=1),\n        - interp(ln_v_array, nu=2)\n    )", ["C11"]),
    ("krogh-only-freqs-flipped", "cij/core/mode_gamma.py", "    krogh = scipy.interpolate.KroghInterpolator(\n        numpy.flip(numpy.log(mode_volumes), axis=0),", "    krogh = scipy.interpolate.KroghInterpolator(\n        numpy.log(mode_volumes),", ["C11"]),
    ("writer-alias-cij-isothermal", "cij/data/output/writer_rules.yml", "- keywords: \n  - cij_s\n  - cij\n", "- keywords: \n  - cij_s\n", ["C15"]),
    ("tp-table-au-pressures", "cij/core/calculator.py", "        p_array = _to_gpa(self.p_array)\n        save_x_tp", "        p_array = self.p_array\n        save_x_tp", ["C15"]),
    ("module-level-cache", "cij/core/mode_gamma.py", "def lstsq_polyfit(xs, ys, new_xs, order=3):\n    order += 1", "_CACHE = {}\n\ndef lstsq_polyfit(xs, ys, new_xs, order=3):\n    _CACHE[order] = xs\n    order += 1", ["C14"]),
    ("disp2eig-no-sqrt", "cij/misc/evec_disp2eig.py", "a *= numpy.sqrt(m[nax, :])", "a *= m[nax, :]", ["C20"]),
    ("pressure-status-max-over-T", "cij/core/qha_adapter.py", "if self.p_tv_gpa[:, -1].min() < self.desired_pressures_gpa.max():", "if self.p_tv_gpa[:, -1].max() < self.desired_pressures_gpa.max():", ["C06"]),
]


def main():
    only = sys.argv[1:]
    out = []
    for name, rel, old, new, props in M:
        if only and not any(p in only for p in props) and name not in only:
            continue
        tmp = tempfile.mkdtemp(prefix="mutant_")
        try:
            shutil.copytree("/repo/cij", os.path.join(tmp, "cij"))
            shutil.copytree("/repo/examples", os.path.join(tmp, "examples"))
            p = os.path.join(tmp, rel)
            src = open(p).read()
            if src.count(old) != 1:
                print("%-32s SKIPPED (pattern occurs %d times)" % (name, src.count(old)), flush=True)
                out.append({"mutant": name, "status": "pattern-not-unique", "count": src.count(old)})
                continue
            open(p, "w").write(src.replace(old, new))
            env = dict(os.environ, CIJ_REPO=tmp, PYTHONPATH=tmp, VERIF_EVIDENCE_DIR=os.path.join(tmp, "evidence"))
            for pid in props:
                r = subprocess.run([os.path.join(HERE, "check"), pid, "--tier", "quick"], env=env, capture_output=True, text=True, cwd=HERE)
                failed = re.findall(r"^FAILED-OBLIGATION (.*)$", r.stdout, re.M)
                print("%-32s %s exit=%d %s" % (name, pid, r.returncode, "; ".join(failed)[:150]), flush=True)
                out.append({"mutant": name, "file": rel, "property": pid, "exit": r.returncode, "failed_obligations": failed})
        finally:
            shutil.rmtree(tmp, ignore_errors=True)
    if not only:
        json.dump(out, open(os.path.join(HERE, "seeded", "MUTANTS.json"), "w"), indent=1)


if __name__ == "__main__":
    main()
