#!/usr/bin/env python3
"""tools/benign.py <patch.diff> [IDs...]  -- development tool (not a registered command)

Applies a behaviour-preserving change to a scratch COPY of /repo's package (under /tmp, removed afterwards) and runs every
check (or the given ones) against it, several at a time.  Any exit code other than 0 is reported: 1 would be a false alarm,
2 / 3 mean the change left the engines' subset (undecided / checker error)."""
import json, os, re, shutil, subprocess, sys, tempfile
from concurrent.futures import ThreadPoolExecutor
HERE = os.path.dirname(os.path.dirname(os.path.abspath(__file__)))


def main():
    patch = os.path.abspath(sys.argv[1])
    ids = sys.argv[2:] or [json.loads(l)["id"] for l in open(os.path.join(HERE, "properties.jsonl"))]
    tmp = tempfile.mkdtemp(prefix="benign_")
    try:
        shutil.copytree("/repo/cij", os.path.join(tmp, "cij"))
        shutil.copytree("/repo/examples", os.path.join(tmp, "examples"))
        r = subprocess.run(["patch", "-p1", "-s", "-d", tmp, "-i", patch], capture_output=True, text=True)
        if r.returncode:
            print("patch failed: %s" % (r.stdout + r.stderr)[:300])
            return 2
        env = dict(os.environ, CIJ_REPO=tmp, PYTHONPATH=tmp, VERIF_EVIDENCE_DIR=os.path.join(tmp, "evidence"))

        def one(pid):
            p = subprocess.run([os.path.join(HERE, "check"), pid, "--tier", "quick"], env=env, capture_output=True, text=True, cwd=HERE)
            lines = [l for l in p.stdout.splitlines() if re.match(r"^(VIOLATION|FAILED-OBLIGATION|UNDECIDED|CHECKER-ERROR|UNCONFIRMED)", l)]
            return pid, p.returncode, lines
        bad = 0
        with ThreadPoolExecutor(5) as ex:
            for pid, code, lines in ex.map(one, ids):
                if code != 0:
                    bad += 1
                    print("%s exit=%d" % (pid, code))
                    for l in lines[:6]:
                        print("    " + l[:260])
        print("%s: %d checks, %d non-zero" % (os.path.basename(patch), len(ids), bad), flush=True)
        return 1 if bad else 0
    finally:
        shutil.rmtree(tmp, ignore_errors=True)


if __name__ == "__main__":
    sys.exit(main())
