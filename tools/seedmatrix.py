#!/usr/bin/env python3
"""tools/seedmatrix.py [--repo]  -- run every seeded change against the check of its property (and record the outcome in meta.json)

default: against a scratch COPY of /repo's package under /tmp (CIJ_REPO/PYTHONPATH point the engines at it; removed afterwards), so that
other work in /verif is not disturbed.  --repo: `git -C /repo apply`, run, `git -C /repo checkout -- .` as the task brief describes."""
import json, os, re, shutil, subprocess, sys, tempfile
HERE = os.path.dirname(os.path.dirname(os.path.abspath(__file__)))
on_repo = "--repo" in sys.argv
only = [a for a in sys.argv[1:] if not a.startswith("--")]
rows = []
jobs = int(os.environ.get("SEED_JOBS", "1"))


def one(d):
    sd = os.path.join(HERE, "seeded", d)
    meta = json.load(open(os.path.join(sd, "meta.json")))
    pid = meta["property"]
    tmp = tempfile.mkdtemp(prefix="seedrun_")
    env = dict(os.environ, VERIF_EVIDENCE_DIR=os.path.join(tmp, "evidence"))
    try:
        if on_repo:
            subprocess.check_call(["git", "-C", "/repo", "apply", os.path.join(sd, "patch.diff")])
        else:
            shutil.copytree("/repo/cij", os.path.join(tmp, "cij"))
            shutil.copytree("/repo/examples", os.path.join(tmp, "examples"))
            subprocess.check_call(["patch", "-p1", "-s", "-d", tmp, "-i", os.path.join(sd, "patch.diff")])
            env.update(CIJ_REPO=tmp, PYTHONPATH=tmp)
        p = subprocess.run([os.path.join(HERE, "check"), pid, "--tier", "quick"], env=env, capture_output=True, text=True, cwd=HERE)
    finally:
        if on_repo:
            subprocess.check_call(["git", "-C", "/repo", "checkout", "--", "."])
        shutil.rmtree(tmp, ignore_errors=True)
    failed = re.findall(r"^FAILED-OBLIGATION (.*)$", p.stdout, re.M)
    viol = re.findall(r"^VIOLATION .*$", p.stdout, re.M)
    nofi = sum(1 for v in viol if v.endswith("no-failing-input-found"))
    meta["detected_by"] = failed
    meta["check_exit_code"] = p.returncode
    meta["violations_with_replayed_input"] = len(viol) - nofi
    meta["what_was_run"] = ("git -C /repo apply patch.diff; ./check %s --tier quick; git -C /repo checkout -- ." % pid) if on_repo else \
        ("patch applied to a scratch copy of /repo's package (tools/seedmatrix.py); CIJ_REPO=<copy> ./check %s --tier quick" % pid)
    json.dump(meta, open(os.path.join(sd, "meta.json"), "w"), indent=1)
    print("%-8s exit=%d with-input=%d %s" % (d, p.returncode, len(viol) - nofi, "; ".join(failed)[:200]), flush=True)
    return (d, p.returncode, failed)


todo = [d for d in sorted(os.listdir(os.path.join(HERE, "seeded"))) if os.path.isdir(os.path.join(HERE, "seeded", d)) and (not only or any(d.startswith(o) for o in only))]
if jobs > 1 and not on_repo:
    from concurrent.futures import ThreadPoolExecutor
    with ThreadPoolExecutor(jobs) as ex:
        rows = list(ex.map(one, todo))
else:
    rows = [one(d) for d in todo]
mp = os.path.join(HERE, "seeded", "MATRIX.json")
old = {r["seed"]: r for r in (json.load(open(mp)) if os.path.exists(mp) and only else [])}
for a, b, c in rows:
    old[a] = {"seed": a, "exit": b, "failed_obligations": c}
json.dump([old[k] for k in sorted(old)], open(mp, "w"), indent=1)
