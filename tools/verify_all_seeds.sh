#!/bin/sh
# sequential verification (each test-suite run needs ~9 GB): tools/verify_all_seeds.sh "C01 C02" -> /tmp/seedverify/summary.txt
for p in $1; do for v in A B; do
  if [ -f /tmp/seed/$p/_seed/$v/patch.diff ]; then /verif/tools/verify_seed.sh /tmp/seed/$p/_seed/$v ${p}$v >> /tmp/seedverify/summary.txt 2>&1; fi
done; done
